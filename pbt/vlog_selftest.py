"""Self-test of the Verilog interpreter (trusted base of C01/C02/C03/C19).  Vectors are hand-derived from
IEEE 1364-2005 (see DESIGN.md Appendix D).  selftest() returns a list of problems (empty = pass)."""
from . import vlog

HDR = '''module t (input clk, input [3:0] a, input [3:0] b, input [1:0] e2,
 output [7:0] r8, output [3:0] r4, output [4:0] r5, output r1);
'''


def comb(expr_r8=None, expr_r4=None, expr_r5=None, expr_r1=None, extra=''):
    s = HDR + extra
    for n, e in (('r8', expr_r8), ('r4', expr_r4), ('r5', expr_r5), ('r1', expr_r1)):
        s += 'assign {} = {};\n'.format(n, e if e is not None else '0')
    return s + 'endmodule\n'


def run_comb(text, a=0, b=0, e2=0):
    sim = vlog.Sim(vlog.parse(text), 't', inputs={'a': a, 'b': b, 'e2': e2})
    sim.poke('a', a)
    sim.poke('b', b)
    sim.poke('e2', e2)
    sim.settle()
    return {n: sim.peek(n) for n in ('r8', 'r4', 'r5', 'r1')}


VECTORS = [
    # (description, kwargs of comb, inputs, expected dict)
    ('sum into 5 bits keeps the carry', dict(expr_r5='a + b', expr_r4='a + b', expr_r8='a + b + 1'), dict(a=15, b=1), dict(r5=16, r4=0, r8=17)),
    ('complement after extension', dict(expr_r8='~a', expr_r4='~a'), dict(a=5), dict(r8=0xFA, r4=0xA)),
    ('shift left sized by the context', dict(expr_r8='a << 2', expr_r4='a << 2'), dict(a=12), dict(r8=0x30, r4=0)),
    ('over-long shifts', dict(expr_r8='a << 9', expr_r4='a >> 1', expr_r5='a >> 7'), dict(a=12), dict(r8=0, r4=6, r5=0)),
    ('borrow wraps at the context width', dict(expr_r8='a - b', expr_r4='a - b'), dict(a=1, b=2), dict(r8=0xFF, r4=0xF)),
    ('unsigned divide and modulo', dict(expr_r8='a / b', expr_r4='a % b', expr_r5='a * b'), dict(a=7, b=2), dict(r8=3, r4=1, r5=14)),
    ('product sized by the target', dict(expr_r8='a * b', expr_r4='a * b'), dict(a=15, b=15), dict(r8=225, r4=1)),
    ('replication and concatenation are self-determined', dict(expr_r8='{ {4{a[3]}}, a }', expr_r4='a[2:1]', expr_r1='a[3]'), dict(a=9), dict(r8=0xF9, r4=0, r1=1)),
    ('concatenation order', dict(expr_r8='{a,b}', expr_r5='{b,a}'), dict(a=9, b=3), dict(r8=0x93, r5=0x19)),
    ('literals', dict(expr_r8='-5', expr_r4="8'hA5", expr_r5='300'), {}, dict(r8=0xFB, r4=5, r5=300 & 31)),
    ('signed multiply', dict(expr_r8='$signed(a) * $signed(b)', expr_r5='$signed(a) * b'), dict(a=15, b=2), dict(r8=0xFE, r5=30)),
    ('sign extension on assignment', dict(expr_r8='$signed(a)', expr_r5='a'), dict(a=15), dict(r8=0xFF, r5=0x0F)),
    ('mixed comparison is unsigned', dict(expr_r1='(a == -1)', expr_r4='($signed(a) == -1)'), dict(a=15), dict(r1=0, r4=1)),
    ('conditions', dict(expr_r1='(e2 == 1)', expr_r4='(e2) ? 1 : 0', expr_r5='!e2', expr_r8='e2 && 1'), dict(e2=2), dict(r1=0, r4=1, r5=0, r8=1)),
    ('precedence == over &', dict(expr_r8='a==b&1', expr_r4='a|b&a', expr_r5='a^b|a'), dict(a=3, b=2), dict(r8=0, r4=3, r5=3)),
    ('precedence + over <<', dict(expr_r8='a+b<<1', expr_r1='a<b==1', expr_r4='a - b - 1'), dict(a=3, b=5), dict(r8=16, r1=1, r4=(3 - 5 - 1) & 15)),
    ('unary binds tighter', dict(expr_r8='-a*b', expr_r1='!a==b', expr_r4='a&&b||a'), dict(a=2, b=0), dict(r8=0, r1=1, r4=1)),
    ('ternary is right associative', dict(expr_r8='a ? b : a ? 7 : 9'), dict(a=0, b=5), dict(r8=9)),
    ('ternary sized by both branches and the target', dict(expr_r8='(e2) ? a : r5', expr_r5='a + b'), dict(a=15, b=15, e2=0), dict(r8=30, r5=30)),
    ('equality with an unsized constant', dict(expr_r1='(a == 15)? 1 : 0', expr_r4='(a == 16)? 1:0'), dict(a=15), dict(r1=1, r4=0)),
    ('reduction operators', dict(expr_r1='&a', expr_r4='|a', expr_r5='^a'), dict(a=7), dict(r1=0, r4=1, r5=1)),
    ('part select on the left', dict(extra='wire [7:0] k;\nassign k[7:0] = 300;\n', expr_r8='k'), {}, dict(r8=44)),
    ('mux on a multi-bit select is a truth test', dict(expr_r8='(e2)? 1 : 2'), dict(e2=2), dict(r8=1)),
    ('arithmetic right shift only when signed', dict(expr_r8='$signed(a) >>> 1', expr_r4='a >>> 1'), dict(a=12), dict(r8=0xFE, r4=6)),
]

SEQ_TESTS = [
    ('swap by non-blocking assignment', '''module t (input clk, output [3:0] p, output [3:0] q);
reg [3:0] rp = 1; reg [3:0] rq = 2;
always @(posedge clk) begin rp <= rq; rq <= rp; end
assign p = rp; assign q = rq;
endmodule''', 3, dict(p=2, q=1)),
    ('blocking then non-blocking', '''module t (input clk, output reg [3:0] p, output reg [3:0] q);
integer t;
initial begin t=0; end
always @(posedge clk) begin t = t + 1; p <= t; q <= t + 1; end
endmodule''', 2, dict(p=2, q=3)),
    ('last non-blocking assignment wins', '''module t (input clk, output [7:0] p, output [7:0] q);
reg [7:0] rp = 255; reg [7:0] rq = 0;
always @(posedge clk) begin rp <= rp + 1; rq <= 1; rq <= 2; end
assign p = rp; assign q = rq;
endmodule''', 1, dict(p=0, q=2)),
    ('if without begin, else chain, case', '''module t (input clk, output reg [3:0] p, output reg [3:0] q);
reg [1:0] st = 0;
always @(posedge clk) begin
  if (st == 0) p <= 1; else if (st == 1) p <= 2; else p <= 3;
  st <= st + 1;
  case (st) 0: q <= 5; 1, 2: q <= 6; default: q <= 7; endcase
end
endmodule''', 3, dict(p=3, q=6)),
    ('memory read before write in the same edge', '''module t (input clk, output [3:0] p, output [3:0] q);
reg [3:0] mem [0:3]; reg [3:0] r; reg [1:0] a = 0;
always @(posedge clk) begin mem[1] <= a + 5; r <= mem[1]; a <= a + 1; end
assign p = r; assign q = mem[1];
endmodule''', 2, dict(p=5, q=6)),
    ('integer arithmetic is signed 32 bit', '''module t (input clk, output reg p, output reg [3:0] q);
integer x;
initial begin x = 2147483647; end
always @(posedge clk) begin x = x + 1; if (x < 0) p <= 1; else p <= 0; q <= 7 / 2; end
endmodule''', 1, dict(p=1, q=3)),
    ('hierarchy, parameters and derived clock', '''module t (input clk, output [3:0] p, output q);
wire [3:0] w; wire g;
sub #(.n(2)) i_s(.clk(g), .d(w), .q(p));
assign w = p + 1;
gate i_g(.clk_in(clk), .clk_out(g), .enin(p[0]), .enout(q));
endmodule
module sub #( parameter n ) (input clk, input [3:0] d, output [3:0] q);
reg [3:0] rq = 0;
always @(posedge clk) rq <= d << n;
assign q = rq;
endmodule
module gate (input clk_in, output clk_out, input enin, output enout);
reg eq = 1;
always @(negedge clk_in) begin eq <= enin; end
assign enout = eq;
assign clk_out = enout & clk_in;
endmodule''', 2, dict(p=4, q=0)),
    ('combinational always block', '''module t (input clk, output reg [3:0] p, output [3:0] q);
reg [3:0] c = 0;
always @(posedge clk) c <= c + 3;
always @(*) begin if (c > 4) p = c - 4; else p = c; end
assign q = c;
endmodule''', 2, dict(p=2, q=6)),
]

REJECT = [
    'module t (input a); assign a = b +; endmodule',
    'module t (input a); always @(a or b) begin end endmodule',
    'module t (input a); for (i=0;i<3;i=i+1) begin end endmodule',
    'module t (input a, output b); assign b = if (a) 1; endmodule',
    'module t (input a);',
]


def selftest():
    problems = []
    for desc, kw, ins, exp in VECTORS:
        try:
            got = run_comb(comb(**kw), **ins)
        except Exception as e:
            problems.append('{}: raised {!r}'.format(desc, e))
            continue
        for k, v in exp.items():
            w = {'r8': 8, 'r4': 4, 'r5': 5, 'r1': 1}[k]
            if got[k] != v & ((1 << w) - 1):
                problems.append('{}: {} = {} expected {}'.format(desc, k, got[k], v & ((1 << w) - 1)))
    for desc, text, cycles, exp in SEQ_TESTS:
        try:
            sim = vlog.Sim(vlog.parse(text), 't')
            for _ in range(cycles):
                sim.cycle()
            for k, v in exp.items():
                if sim.peek(k) != v:
                    problems.append('{}: {} = {} expected {}'.format(desc, k, sim.peek(k), v))
        except Exception as e:
            problems.append('{}: raised {!r}'.format(desc, e))
    for text in REJECT:
        try:
            vlog.parse(text)
            problems.append('parser accepted unsupported text: ' + text)
        except vlog.VParseError:
            pass
    # undefined operations are reported, not computed
    sim = vlog.Sim(vlog.parse(comb(expr_r8='a / b')), 't', inputs={'a': 1, 'b': 1})
    if sim.undefined_events != 0:
        problems.append('spurious undefined event')
    sim.poke('b', 0)
    sim.settle()
    if sim.undefined_events == 0:
        problems.append('division by zero was not reported as undefined')
    return problems


if __name__ == '__main__':
    import sys
    p = selftest()
    print('\n'.join(p) if p else 'vlog self-test ok ({} comb, {} seq)'.format(len(VECTORS), len(SEQ_TESTS)))
    sys.exit(1 if p else 0)

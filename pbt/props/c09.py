"""C09 - storage and sequential blocks follow their reference state machines.

Model-based: a reference state machine per block (written from the documentation: reset(==1) >
enable(!=0) > hold; LIFO within depth; read-before-write) is stepped in lock-step with the block from
power-up; outputs are compared twice per cycle: after the inputs were poked and the netlist settled
(Mealy view) and after the edge (Moore view)."""
import itertools

import py4hw
from hypothesis import strategies as st

from ..bench import Bench, mask
from ..runner import ok, fail, discard, HarnessError, exception_signature

PROP = 'C09'
RULE = ('case = (block, configuration, input history from power-up); Hypothesis lists of per-cycle input vectors with '
        'biased control bits (runs of reset, enable toggling, push/pop bursts, same-address read/write). Non-trivial iff '
        'the history contains every control event relevant to the block (listed per block in REQUIRED: reset while '
        'enabled, hold, wrap-around, push on full, pop on empty, read-during-write, ...). Distinct by JSON hash. The '
        'thorough tier adds an exhaustive breadth-first product exploration of tiny configurations.')
ASSUMPTIONS = [
    'control inputs (reset, enable, inc, push, pop, write, shift) are 1-bit wires, as documented and in every caller',
    'the power-up output before the first edge is not part of this property (checked by C01 against the Verilog initial value)',
    'two same-cycle writes to one address through both ports of the dual-port memory are not generated (unspecified)',
    'Stack_ShiftRegister empty/full outputs are not judged (the statement only speaks about LIFO order)',
]

CLEAN_REJECTIONS = (AssertionError,)


def is_clean_rejection(e):
    return isinstance(e, AssertionError) or type(e) is Exception


# ---- reference machines -------------------------------------------------------------------------------
class Model:
    required = ()

    def __init__(self, cfg):
        self.cfg = cfg
        self.events = set()

    def ev(self, name):
        self.events.add(name)


class RegM(Model):
    required = ('load',)

    def __init__(self, cfg):
        super().__init__(cfg)
        self.w = cfg['w']
        self.rv = (cfg.get('rv') or 0)
        self.state = self.rv & mask(self.w)
        req = ['load']
        if cfg['en']:
            req.append('hold')
        if cfg['rst']:
            req.append('reset')
            if cfg['en']:
                req.append('reset_while_disabled')
        self.required = tuple(req)

    def ports(self):
        return [self.w] + ([1] if self.cfg['en'] else []) + ([1] if self.cfg['rst'] else [])

    def outs(self):
        return [self.cfg.get('wq', self.w)]

    def split(self, v):
        d = v[0]
        k = 1
        en = 1
        rst = 0
        if self.cfg['en']:
            en = v[k]
            k += 1
        if self.cfg['rst']:
            rst = v[k]
        return d, en, rst

    def out(self, v):
        return [self.state & mask(self.cfg.get('wq', self.w))]

    def tick(self, v):
        d, en, rst = self.split(v)
        if rst == 1:
            self.state = self.rv
            self.ev('reset')
            if not en:
                self.ev('reset_while_disabled')
        elif en:
            self.state = d
            self.ev('load')
        else:
            self.ev('hold')


def _reg_build(s, i, o, c):
    k = 1
    en = rst = None
    if c['en']:
        en = i[k]
        k += 1
    if c['rst']:
        rst = i[k]
    return py4hw.Reg(s, 'dut', i[0], o[0], enable=en, reset=rst, reset_value=c.get('rv'))


class TRegM(RegM):
    def __init__(self, cfg):
        cfg = dict(cfg, w=1, rv=0)
        super().__init__(cfg)
        self.required = tuple(['toggle'] + [r for r in self.required if r != 'load'])

    def tick(self, v):
        t, en, rst = self.split(v)
        if rst == 1:
            self.state = 0
            self.ev('reset')
            if not en:
                self.ev('reset_while_disabled')
        elif en:
            if t & 1:
                self.state ^= 1
                self.ev('toggle')
        else:
            self.ev('hold')


def _treg_build(s, i, o, c):
    k = 1
    en = rst = None
    if c['en']:
        en = i[k]
        k += 1
    if c['rst']:
        rst = i[k]
    return py4hw.TReg(s, 'dut', i[0], o[0], enable=en, reset=rst)


class CounterM(Model):
    def __init__(self, cfg):
        super().__init__(cfg)
        self.w = cfg['w']
        self.q = 0
        req = ['inc', 'wrap']
        if cfg['rst']:
            req.append('reset')
        if cfg['inc']:
            req.append('hold')
        self.required = tuple(req)

    def ports(self):
        return ([1] if self.cfg['rst'] else []) + ([1] if self.cfg['inc'] else [])

    def outs(self):
        return [self.w]

    def split(self, v):
        k = 0
        rst, inc = 0, 1
        if self.cfg['rst']:
            rst = v[k]
            k += 1
        if self.cfg['inc']:
            inc = v[k]
        return rst, inc

    def out(self, v):
        return [self.q]

    def step_value(self, v):
        return 1

    def tick(self, v):
        rst, inc = self.split(v)
        if rst:
            self.q = 0
            self.ev('reset')
        elif inc:
            n = self.q + self.step_value(v)
            if n > mask(self.w):
                self.ev('wrap')
            self.q = n & mask(self.w)
            self.ev('inc')
        else:
            self.ev('hold')


def _counter_build(s, i, o, c):
    k = 0
    rst = inc = None
    if c['rst']:
        rst = i[k]
        k += 1
    if c['inc']:
        inc = i[k]
    return py4hw.Counter(s, 'dut', rst, inc, o[0])


class StepCounterM(CounterM):
    def ports(self):
        return super().ports() + [self.cfg['ws']]

    def step_value(self, v):
        return v[-1]


def _stepcounter_build(s, i, o, c):
    k = 0
    rst = inc = None
    if c['rst']:
        rst = i[k]
        k += 1
    if c['inc']:
        inc = i[k]
        k += 1
    return py4hw.StepUpCounter(s, 'dut', rst, inc, i[k], o[0])


class ModCounterM(Model):
    required = ('inc', 'wrap', 'reset', 'hold', 'hold_at_top')

    def __init__(self, cfg):
        super().__init__(cfg)
        self.w, self.mod = cfg['w'], cfg['mod']
        self.q = 0

    def ports(self):
        return [1, 1]

    def outs(self):
        return [self.w, 1]

    def out(self, v):
        return [self.q, int(self.q == self.mod - 1)]

    def tick(self, v):
        rst, inc = v
        top = self.q == self.mod - 1
        if rst:
            self.q = 0
            self.ev('reset')
        elif inc:
            if top:
                self.q = 0
                self.ev('wrap')
            else:
                self.q = (self.q + 1) & mask(self.w)
            self.ev('inc')
        else:
            self.ev('hold_at_top' if top else 'hold')


class DelayM(Model):
    def __init__(self, cfg):
        super().__init__(cfg)
        self.w, self.n = cfg['w'], cfg['delay']
        self.regs = [0] * self.n
        req = ['shift']
        if cfg['en']:
            req.append('hold')
        if cfg['rst']:
            req.append('reset')
        self.required = tuple(req)

    def ports(self):
        return [self.w] + ([1] if self.cfg['en'] else []) + ([1] if self.cfg['rst'] else [])

    def outs(self):
        return [self.w]

    def out(self, v):
        return [self.regs[-1] if self.n else v[0]]

    def tick(self, v):
        a = v[0]
        k = 1
        en, rst = 1, 0
        if self.cfg['en']:
            en = v[k]
            k += 1
        if self.cfg['rst']:
            rst = v[k]
        if rst == 1:
            self.regs = [0] * self.n
            self.ev('reset')
        elif en:
            self.regs = ([a] + self.regs)[:self.n]
            self.ev('shift')
        else:
            self.ev('hold')


def _delay_build(s, i, o, c):
    k = 1
    en = rst = None
    if c['en']:
        en = i[k]
        k += 1
    if c['rst']:
        rst = i[k]
    return py4hw.DelayLine(s, 'dut', i[0], en, rst, o[0], c['delay'])


class PipeM(Model):
    required = ('load', 'reset')

    def __init__(self, cfg):
        super().__init__(cfg)
        self.ws = cfg['ws']
        self.regs = [0] * len(self.ws)

    def ports(self):
        return [1] + list(self.ws)

    def outs(self):
        return list(self.ws)

    def out(self, v):
        return list(self.regs)

    def tick(self, v):
        if v[0] == 1:
            self.regs = [0] * len(self.ws)
            self.ev('reset')
        else:
            self.regs = list(v[1:])
            self.ev('load')


class ShiftBiM(Model):
    required = ('left', 'right', 'both', 'hold')

    def __init__(self, cfg):
        super().__init__(cfg)
        self.w, self.n = cfg['w'], cfg['depth']
        self.q = [0] * self.n

    def ports(self):
        return [self.w, self.w, 1, 1]     # left_in, right_in, shift_left, shift_right

    def outs(self):
        return [self.w, self.w]

    def out(self, v):
        return [self.q[0], self.q[-1]]

    def tick(self, v):
        li, ri, sl, sr = v
        if sl:
            self.q = self.q[1:] + [ri]
            self.ev('both' if sr else 'left')
        elif sr:
            self.q = [li] + self.q[:-1]
            self.ev('right')
        else:
            self.ev('hold')


class StackM(Model):
    required = ('push', 'pop', 'push_full', 'pop_empty', 'push_and_pop', 'hold')

    def __init__(self, cfg):
        super().__init__(cfg)
        self.w, self.n = cfg['w'], cfg['depth']
        self.q = [0] * self.n
        self.fill = 0
        self.dout = 0

    def ports(self):
        return [self.w, 1, 1]      # din, push, pop

    def outs(self):
        return [self.w]

    def out(self, v):
        return [self.dout]

    def tick(self, v):
        din, push, pop = v
        if pop:
            self.dout = self.q[0]
            self.q = self.q[1:] + [0]
            if push:
                self.ev('push_and_pop')
            elif self.fill == 0:
                self.ev('pop_empty')
            else:
                self.ev('pop')
            self.fill = max(0, self.fill - 1)
        elif push:
            if self.fill == self.n:
                self.ev('push_full')
            else:
                self.ev('push')
            self.q = [din] + self.q[:-1]
            self.fill = min(self.n, self.fill + 1)
        else:
            self.ev('hold')


class EdgeM(Model):
    required = ('rise', 'fall', 'steady1', 'steady0')

    def __init__(self, cfg):
        super().__init__(cfg)
        self.z = 0

    def ports(self):
        return [1]

    def outs(self):
        return [1]

    def out(self, v):
        a = v[0]
        d = self.cfg['dir']
        if d == 'pos':
            return [a & (1 - self.z)]
        if d == 'neg':
            return [(1 - a) & self.z]
        return [a ^ self.z]

    def tick(self, v):
        a = v[0]
        if a and not self.z:
            self.ev('rise')
        elif self.z and not a:
            self.ev('fall')
        elif a:
            self.ev('steady1')
        else:
            self.ev('steady0')
        self.z = a


class ClkDivM(Model):
    def __init__(self, cfg):
        super().__init__(cfg)
        self.n = cfg['n']
        self.count = 0
        self.clk = 0
        self.required = ('toggle',) + (('reset',) if cfg['rst'] else ())

    def ports(self):
        return [1] if self.cfg['rst'] else []

    def outs(self):
        return [1]

    def out(self, v):
        return [self.clk]

    def tick(self, v):
        if self.cfg['rst'] and v[0] == 1:
            self.count = 0
            self.clk = 0
            self.ev('reset')
        elif self.count == self.n - 1:
            self.clk ^= 1
            self.count = 0
            self.ev('toggle')
        else:
            self.count += 1


def _clkdiv_build(s, i, o, c):
    return py4hw.ClockDivider(s, 'dut', 2 * c['n'] * 1000, 1000, o[0], reset=i[0] if c['rst'] else None)


class SyncMemM(Model):
    required = ('write', 'read_during_write_same_addr', 'read_written')

    def __init__(self, cfg):
        super().__init__(cfg)
        self.aw, self.w = cfg['aw'], cfg['w']
        self.mem = [0] * (1 << self.aw)
        self.rd = 0
        self.written = set()

    def ports(self):
        return [self.aw, self.aw, 1, self.w]     # raddr, waddr, write, wdata

    def outs(self):
        return [self.w]

    def out(self, v):
        return [self.rd]

    def tick(self, v):
        ra, wa, we, wd = v
        self.rd = self.mem[ra]
        if ra in self.written:
            self.ev('read_written')
        if we:
            self.ev('write')
            if ra == wa:
                self.ev('read_during_write_same_addr')
            self.mem[wa] = wd
            self.written.add(wa)


class DualMemM(Model):
    required = ('write_a', 'write_b', 'read_during_write_same_addr', 'read_written')

    def __init__(self, cfg):
        super().__init__(cfg)
        self.aw, self.w = cfg['aw'], cfg['w']
        self.mem = [0] * (1 << self.aw)
        self.rd = [0, 0]
        self.written = set()

    def ports(self):
        return [self.aw, self.aw, 1, self.w] * 2

    def outs(self):
        return [self.w, self.w]

    def out(self, v):
        return list(self.rd)

    def tick(self, v):
        ra, wa, wea, wda, rb, wb, web, wdb = v
        self.rd = [self.mem[ra], self.mem[rb]]
        if ra in self.written or rb in self.written:
            self.ev('read_written')
        if wea:
            self.ev('write_a')
        if web:
            self.ev('write_b')
        if (wea and (ra == wa or rb == wa)) or (web and (ra == wb or rb == wb)):
            self.ev('read_during_write_same_addr')
        if wea:
            self.mem[wa] = wda
            self.written.add(wa)
        if web:
            self.mem[wb] = wdb
            self.written.add(wb)


def _dual_build(s, i, o, c):
    return py4hw.DualPortSynchronousMemory(s, 'dut', i[0], i[1], i[2], o[0], i[3], i[4], i[5], i[6], o[1], i[7])


BLOCKS = {
    'Reg': (RegM, _reg_build),
    'TReg': (TRegM, _treg_build),
    'Counter': (CounterM, _counter_build),
    'StepUpCounter': (StepCounterM, _stepcounter_build),
    'ModuloCounter': (ModCounterM, lambda s, i, o, c: py4hw.ModuloCounter(s, 'dut', c['mod'], i[0], i[1], o[0], o[1])),
    'DelayLine': (DelayM, _delay_build),
    'PipelinePhase': (PipeM, lambda s, i, o, c: py4hw.PipelinePhase(s, 'dut', i[0], list(i[1:]), list(o))),
    'ShiftRegisterBidirectional': (ShiftBiM, lambda s, i, o, c: py4hw.ShiftRegisterBidirectional(
        s, 'dut', i[0], i[1], o[0], o[1], i[2], i[3], c['depth'])),
    'Stack_ShiftRegister': (StackM, lambda s, i, o, c: py4hw.Stack_ShiftRegister(
        s, 'dut', i[0], o[0], i[1], i[2], None, None, c['depth'])),
    'EdgeDetector': (EdgeM, lambda s, i, o, c: py4hw.EdgeDetector(s, 'dut', i[0], o[0], c['dir'])),
    'ClockDivider': (ClkDivM, _clkdiv_build),
    'SynchronousMemory': (SyncMemM, lambda s, i, o, c: py4hw.SynchronousMemory(s, 'dut', i[0], i[1], i[2], o[0], i[3])),
    'DualPortSynchronousMemory': (DualMemM, _dual_build),
}


def cfg_class(block, c):
    parts = []
    for k in ('en', 'rst', 'inc', 'dir'):
        if k in c:
            parts.append('{}={}'.format(k, c[k]))
    if 'rv' in c and c['rv']:
        parts.append('rv!=0')
    if block == 'ModuloCounter':
        parts.append('mod_pow2={}'.format(c['mod'] == 1 << c['w']))
    if 'wq' in c and 'w' in c and c['wq'] != c['w']:
        parts.append('wq!=w')
    return ','.join(parts)


# ---- execution ----------------------------------------------------------------------------------------
def run_history(block, cfg, hist, collect_events=True, table=None, invariants=None, followers=False):
    """returns ('rejected', why) | ('fail', sig, msg) | ('ok', events, required)

    followers: a plain register is attached directly to every output of the block, instantiated after it; being a
    sequential block itself it must load the value the output had before the edge (composition with the register rule)"""
    Mcls, build = (table or BLOCKS)[block]
    model = Mcls(cfg)
    inw, outw = model.ports(), model.outs()
    fol = []

    def builder(s, i, o):
        r = build(s, i, o, cfg)
        if followers:
            for k, ow in enumerate(o):
                f = s.wire('follow_q{}'.format(k), ow.getWidth())
                py4hw.Reg(s, 'follow{}'.format(k), ow, f)
                fol.append(f)
        return r
    try:
        b = Bench(inw, outw, builder)
    except HarnessError:
        raise
    except Exception as e:
        if is_clean_rejection(e):
            return ('rejected', repr(e)[:100])
        return ('fail', '{}|{}|constructor_crash:{}'.format(block, cfg_class(block, cfg), type(e).__name__),
                '{} cfg={} constructor raised {!r}'.format(block, cfg, e))
    cc = cfg_class(block, cfg)
    try:
        b.simulator()
        for t, vec in enumerate(hist):
            vec = [x & mask(w) for x, w in zip(vec, inw)]
            if hasattr(model, 'sanitize'):
                vec = model.sanitize(vec)       # environment assumptions of the property (counted by the model)
            b.poke(vec)
            b.settle()
            if True:
                # before the edge the outputs still show the state reached so far (at t = 0 the power-up state: an edge
                # that neither resets nor loads must hold it)
                got, exp = b.read(), [x & mask(w) for x, w in zip(model.out(vec), outw)]
                if got != exp:
                    return ('fail', '{}|{}|{}'.format(block, cc, 'pre_edge' if t else 'power_up_state'),
                            '{} cfg={} cycle {} inputs {}: outputs before the edge {} expected {} (history {})'.format(
                                block, cfg, t, vec, got, exp, hist[:t + 1]))
            pre = b.read()
            model.tick(vec)
            b.clk(1)
            got, exp = b.read(), [x & mask(w) for x, w in zip(model.out(vec), outw)]
            if fol and [f.get() for f in fol] != pre:
                return ('fail', '{}|{}|follower_register_saw_post_edge_value'.format(block, cc),
                        '{} cfg={} cycle {} inputs {}: registers attached to the outputs loaded {} but the outputs held {} before the edge (history {})'.format(
                            block, cfg, t, vec, [f.get() for f in fol], pre, hist[:t + 1]))
            if invariants is not None:
                bad = invariants(model, t, vec, pre, got)
                if bad:
                    return ('fail', '{}|{}|invariant:{}'.format(block, cc, bad[0]),
                            '{} cfg={} cycle {} inputs {}: {} (outputs before {} after {}; history {})'.format(
                                block, cfg, t, vec, bad[1], pre, got, hist[:t + 1]))
            if got != exp:
                feat = model.feature() if hasattr(model, 'feature') else ''
                return ('fail', '{}|{}|post_edge{}'.format(block, cc, '|' + feat if feat else ''),
                        '{} cfg={} cycle {} inputs {}: outputs after the edge {} expected {} (history {})'.format(
                            block, cfg, t, vec, got, exp, hist[:t + 1]))
    except HarnessError:
        raise
    except Exception as e:
        es = exception_signature(e) or 'exc:' + type(e).__name__
        return ('fail', '{}|{}|{}'.format(block, cc, es), '{} cfg={} raised {!r} while simulating'.format(block, cfg, e))
    return ('ok', model.events, model.required, model)


def run_case(case):
    block, cfg, hist = case['block'], case['cfg'], case['hist']
    r = run_history(block, cfg, hist, followers=bool(case.get('followers', True)))
    if r[0] == 'rejected':
        return discard('rejected_by_constructor', [block + ':rejected'])
    if r[0] == 'fail':
        return fail(r[1], r[2], cls=[block])
    events, required = r[1], r[2]
    nt = all(x in events for x in required)
    return ok(nt, [block] + ([block + ':all_events'] if nt else []))


# ---- generators ------------------------------------------------------------------------------------------
W = st.one_of(st.integers(1, 4), st.sampled_from([1, 2, 3, 8, 16]))
B = st.booleans()


def cfgs(block):
    if block == 'Reg':
        return W.flatmap(lambda w: st.fixed_dictionaries({
            'w': st.just(w), 'en': B, 'rst': B,
            'rv': st.one_of(st.none(), st.integers(0, mask(w)), st.just(mask(w)))}))
    if block == 'TReg':
        return st.fixed_dictionaries({'en': B, 'rst': B})
    if block == 'Counter':
        return st.fixed_dictionaries({'w': st.integers(1, 4), 'rst': B, 'inc': B})
    if block == 'StepUpCounter':
        return st.fixed_dictionaries({'w': st.integers(1, 5), 'ws': st.integers(1, 5), 'rst': B, 'inc': B})
    if block == 'ModuloCounter':
        return st.integers(1, 4).flatmap(lambda w: st.fixed_dictionaries({'w': st.just(w), 'mod': st.integers(1, 1 << w)}))
    if block == 'DelayLine':
        return st.fixed_dictionaries({'w': W, 'delay': st.integers(0, 6), 'en': B, 'rst': B})
    if block == 'PipelinePhase':
        return st.fixed_dictionaries({'ws': st.lists(st.integers(1, 8), min_size=1, max_size=4)})
    if block == 'ShiftRegisterBidirectional':
        return st.fixed_dictionaries({'w': W, 'depth': st.integers(1, 6)})
    if block == 'Stack_ShiftRegister':
        return st.fixed_dictionaries({'w': W, 'depth': st.integers(1, 5)})
    if block == 'EdgeDetector':
        return st.fixed_dictionaries({'dir': st.sampled_from(['pos', 'neg', 'both'])})
    if block == 'ClockDivider':
        return st.fixed_dictionaries({'n': st.integers(1, 9), 'rst': B})
    if block in ('SynchronousMemory', 'DualPortSynchronousMemory'):
        return st.fixed_dictionaries({'aw': st.integers(1, 3), 'w': st.integers(1, 8)})
    raise HarnessError(block)


def control_bit():
    return st.sampled_from([0, 0, 1, 1, 1])


def history(block, cfg, max_len):
    model = BLOCKS[block][0](cfg)
    inw = model.ports()
    if not inw:
        return st.integers(1, max_len).map(lambda n: [[] for _ in range(n)])
    # control ports are the 1-bit ones; they are drawn in runs so that bursts of reset / push / pop occur
    from ..cat_arith import value_st
    vec = st.tuples(*[(control_bit() if w == 1 else st.one_of(value_st(w), st.integers(0, min(mask(w), 3)))) for w in inw])
    burst = st.tuples(vec, st.integers(1, 6)).map(lambda t: [list(t[0])] * t[1])
    h = st.lists(st.one_of(vec.map(lambda v: [list(v)]), burst), min_size=1, max_size=max_len).map(
        lambda chunks: [v for c in chunks for v in c][:max_len])
    if block == 'DualPortSynchronousMemory':
        def fix(hist):
            out = []
            for v in hist:
                v = list(v)
                if v[2] and v[6] and v[1] == v[5]:
                    v[6] = 0          # no same-cycle double write to one address
                out.append(v)
            return out
        h = h.map(fix)
    return h


def case_strategy(max_len, blocks=None):
    names = sorted(blocks or BLOCKS.keys())
    return st.sampled_from(names).flatmap(
        lambda b: cfgs(b).flatmap(lambda c: history(b, c, max_len).map(lambda h: {'block': b, 'cfg': c, 'hist': h})))


def shrink_candidates(case):
    h = case['hist']
    for i in range(len(h)):
        yield dict(case, hist=h[:i] + h[i + 1:])
    if len(h) > 1:
        yield dict(case, hist=h[:len(h) // 2])
    for i, v in enumerate(h):
        for j, x in enumerate(v):
            if x:
                nv = list(v)
                nv[j] = 0 if x == 1 else x // 2
                yield dict(case, hist=h[:i] + [nv] + h[i + 1:])


# ---- exhaustive product exploration of tiny configurations (thorough) ---------------------------------------
TINY = [
    ('Reg', {'w': 1, 'en': True, 'rst': True, 'rv': 1}), ('Reg', {'w': 2, 'en': True, 'rst': True, 'rv': 2}),
    ('Reg', {'w': 2, 'en': False, 'rst': True, 'rv': None}), ('Reg', {'w': 2, 'en': True, 'rst': False, 'rv': 3}),
    ('TReg', {'en': True, 'rst': True}), ('Counter', {'w': 2, 'rst': True, 'inc': True}),
    ('ModuloCounter', {'w': 2, 'mod': 3}), ('ModuloCounter', {'w': 2, 'mod': 4}), ('ModuloCounter', {'w': 2, 'mod': 1}),
    ('StepUpCounter', {'w': 3, 'ws': 2, 'rst': True, 'inc': True}),
    ('DelayLine', {'w': 1, 'delay': 3, 'en': True, 'rst': True}), ('DelayLine', {'w': 2, 'delay': 2, 'en': True, 'rst': False}),
    ('ShiftRegisterBidirectional', {'w': 1, 'depth': 3}), ('Stack_ShiftRegister', {'w': 1, 'depth': 3}),
    ('Stack_ShiftRegister', {'w': 2, 'depth': 2}),
    ('EdgeDetector', {'dir': 'pos'}), ('EdgeDetector', {'dir': 'neg'}), ('EdgeDetector', {'dir': 'both'}),
    ('ClockDivider', {'n': 3, 'rst': True}), ('SynchronousMemory', {'aw': 1, 'w': 1}),
    ('PipelinePhase', {'ws': [1, 2]}),
]


def _bfs_task(task, table=None, invariants=None):
    """Exhaustive exploration by iterative deepening over input sequences is exponential; instead the
    product machine (model state) is explored breadth-first: for each newly reached model state the
    shortest input history leading to it is replayed on a fresh implementation and then every input
    vector is applied once (so every transition of the reachable product machine is executed)."""
    block, cfg = task['block'], task['cfg']
    Mcls = (table or BLOCKS)[block][0]
    inw = Mcls(cfg).ports()
    pv = task.get('port_values')
    vectors = [list(v) for v in itertools.product(*[(pv[k] if pv and pv[k] is not None else range(1 << w))
                                                    for k, w in enumerate(inw)])] if inw else [[]]

    def key(m):
        d = dict(m.__dict__)
        d.pop('events', None)
        d.pop('cfg', None)
        d.pop('required', None)
        d.pop('written', None)
        d.pop('sanitized', None)
        d.pop('excluded_known', None)
        return repr(sorted(d.items()))

    def state_after(hist):
        m = Mcls(cfg)
        for v in hist:
            if hasattr(m, 'sanitize'):
                v = m.sanitize(v)
            m.tick(v)
        return m

    seen = {key(Mcls(cfg)): []}
    frontier = [[]]
    evals = transitions = 0
    fails = {}
    limit = task.get('limit', 400)
    while frontier and len(seen) <= limit:
        nxt = []
        for hist in frontier:
            for v in vectors:
                h2 = hist + [v]
                # the extra repeated vector checks the pre-edge (Mealy) view of the reached state as well
                r = run_history(block, cfg, h2 + [v], table=table, invariants=invariants)
                evals += 1
                transitions += 1
                if r[0] == 'fail':
                    if r[1] not in fails:
                        fails[r[1]] = {'sig': r[1], 'msg': r[2], 'count': 1, 'case': {'block': block, 'cfg': cfg, 'hist': h2 + [v]}}
                    else:
                        fails[r[1]]['count'] += 1
                    continue
                if r[0] == 'rejected':
                    raise HarnessError('tiny configuration rejected: {} {}'.format(block, cfg))
                k = key(state_after(h2))
                if k not in seen:
                    seen[k] = h2
                    nxt.append(h2)
        frontier = nxt
    return {'evals': evals, 'nt': transitions, 'cls': {block + ':bfs_states': len(seen), block + ':bfs_transitions': transitions},
            'fails': list(fails.values()),
            'samples': [{'case': {'block': block, 'cfg': cfg, 'hist': max(seen.values(), key=len)},
                         'observed': {'product_states': len(seen)}}]}


def strata(tier):
    if tier == 'quick':
        return [
            {'name': 'histories', 'kind': 'hyp', 'examples': 4000, 'strategy': lambda: case_strategy(40), 'run_case': run_case},
            {'name': 'bfs_tiny', 'kind': 'enum', 'exhaustive': True, 'run_task': _bfs_task,
             'tasks': [{'block': b, 'cfg': c, 'limit': 60} for b, c in TINY]},
        ]
    return [
        {'name': 'histories', 'kind': 'hyp', 'examples': 60000, 'strategy': lambda: case_strategy(200), 'run_case': run_case},
        {'name': 'bfs_tiny', 'kind': 'enum', 'exhaustive': True, 'run_task': _bfs_task,
         'tasks': [{'block': b, 'cfg': c, 'limit': 3000} for b, c in TINY]},
    ]


def extra_coverage(tier):
    return {'blocks': sorted(BLOCKS.keys())}

"""C02 - Python-to-Verilog transpilation preserves the behaviour of behavioural blocks.

A program generator produces behavioural classes in the supported subset (rendered with the minimal
parentheses Python needs, so precedence matters); each is written to a module file (the transpiler uses
inspect.getsource), instantiated, and stepped by the py4hw simulator next to the Verilog interpreter running
the emitted module.  Compared every cycle: all outputs and every integer state attribute.  A program with an
unsupported construct must be refused, or else its text must be legal and behave identically."""
import ast
import importlib.util
import os
import shutil
import sys
import tempfile

import py4hw
from hypothesis import strategies as st

from .. import vlog, vcheck, rtl
from ..vlog_selftest import selftest as vlog_selftest
from ..bench import mask
from ..runner import ok, fail, discard, HarnessError, exception_signature

PROP = 'C02'
RULE = ('case = (behavioural class described by an IR: ports with widths 1..32, integer state attributes initialised to '
        'constants, constructor constants, one clock or propagate body built from assignments, +=, if/elif/else nests, '
        'match/case, and/or/not, comparisons, + - * // % & | ^ ~ << >>, get/prepare/put; an input sequence). Programs are '
        'rendered with minimal parentheses. A second generator adds one unsupported construct; a corpus adds the library\'s '
        'own behavioural blocks; a stratum of flat n-ary and/or chains (2..9 operands) with stimulus around the neutral assignment; a decoy instance of the same class with other constructor constants is transpiled first in half of the cases with constants. Non-trivial iff the body took at least two different paths over the run and some output '
        'changed. Distinct by JSON hash. Inputs that leave the domain Verilog gives the intermediate values (a carry, '
        'borrow or sign lost by expression sizing, detected on the emitted expression tree) cut the sequence and are counted.')
ASSUMPTIONS = [
    'A1: an output reg without initialiser powers up to 0 (the simulator\'s wires do too)',
    'the domain guard evaluates every node of the emitted expression tree both sized (IEEE 1364 5.4/5.5) and over unbounded integers; it is applied to the emitted tree, so a translation error is evaluated consistently and stays visible',
    'generated classes follow the library conventions: port attribute named like the port, constructor constants stored under the argument name',
    'and/or are generated in boolean positions only (Python returns operands there, Verilog one bit)',
]

_TMP = None
_COUNT = [0]


def tmpdir():
    global _TMP
    if _TMP is None:
        base = os.environ.get('VERIF_SCRATCH')
        if base and os.path.isdir(base):
            _TMP = tempfile.mkdtemp(prefix='c02_progs_', dir=base)      # removed by the runner at the end of the run
        else:
            _TMP = tempfile.mkdtemp(prefix='c02_progs_')
            import atexit
            atexit.register(lambda: shutil.rmtree(_TMP, ignore_errors=True))
    return _TMP


def selftest():
    return vlog_selftest()


# ---- IR -> Python source ------------------------------------------------------------------------------------------------
# expression IR: ['c', int] | ['loc', name] | ['st', name] | ['k', name] | ['in', port] | ['bin', op, a, b] | ['inv', a, maskbits]
#               | ['cmp', op, a, b] | ['and'|'or', a, b] | ['not', a] | ['tern', c, a, b]
BINOPS = {'+': ast.Add, '-': ast.Sub, '*': ast.Mult, '//': ast.FloorDiv, '%': ast.Mod, '&': ast.BitAnd, '|': ast.BitOr,
          '^': ast.BitXor, '<<': ast.LShift, '>>': ast.RShift, '**': ast.Pow}
CMPOPS = {'==': ast.Eq, '!=': ast.NotEq, '<': ast.Lt, '<=': ast.LtE, '>': ast.Gt, '>=': ast.GtE}


def self_attr(name):
    return ast.Attribute(value=ast.Name(id='self', ctx=ast.Load()), attr=name, ctx=ast.Load())


def to_ast(e):
    k = e[0]
    if k == 'c':
        return ast.Constant(value=e[1])
    if k == 'loc':
        return ast.Name(id=e[1], ctx=ast.Load())
    if k in ('st', 'k'):
        return self_attr(e[1])
    if k == 'in':
        return ast.Call(func=ast.Attribute(value=self_attr(e[1]), attr='get', ctx=ast.Load()), args=[], keywords=[])
    if k == 'bin':
        return ast.BinOp(left=to_ast(e[2]), op=BINOPS[e[1]](), right=to_ast(e[3]))
    if k == 'inv':
        return ast.BinOp(left=ast.UnaryOp(op=ast.Invert(), operand=to_ast(e[1])), op=ast.BitAnd(), right=ast.Constant(value=mask(e[2])))
    if k == 'cmp':
        return ast.Compare(left=to_ast(e[2]), ops=[CMPOPS[e[1]]()], comparators=[to_ast(e[3])])
    if k == 'chain':
        return ast.Compare(left=to_ast(e[1]), ops=[ast.Lt(), ast.Lt()], comparators=[to_ast(e[2]), to_ast(e[3])])
    if k in ('and', 'or'):
        return ast.BoolOp(op=ast.And() if k == 'and' else ast.Or(), values=[to_ast(x) for x in e[1:]])
    if k == 'not':
        return ast.UnaryOp(op=ast.Not(), operand=to_ast(e[1]))
    if k == 'tern':
        return ast.IfExp(test=to_ast(e[1]), body=to_ast(e[2]), orelse=to_ast(e[3]))
    if k == 'call':
        return ast.Call(func=self_attr(e[1]), args=[to_ast(x) for x in e[2:]], keywords=[])
    if k == 'index':
        return ast.Subscript(value=self_attr(e[1]), slice=to_ast(e[2]), ctx=ast.Load())
    if k == 'float':
        return ast.Constant(value=e[1])
    raise HarnessError('bad expr ' + str(e))


def target(t):
    if t[0] == 'loc':
        return ast.Name(id=t[1], ctx=ast.Store())
    return ast.Attribute(value=ast.Name(id='self', ctx=ast.Load()), attr=t[1], ctx=ast.Store())


def stmt_ast(s, seq):
    k = s[0]
    if k == 'assign':
        return ast.Assign(targets=[target(s[1])], value=to_ast(s[2]), lineno=0)
    if k == 'aug':
        return ast.AugAssign(target=target(s[1]), op=BINOPS[s[2]](), value=to_ast(s[3]))
    if k == 'out':
        return ast.Expr(value=ast.Call(func=ast.Attribute(value=self_attr(s[1]), attr='prepare' if seq else 'put', ctx=ast.Load()),
                                       args=[to_ast(s[2])], keywords=[]))
    if k == 'if':
        # ['if', [[cond, body], ...], else_body or None]
        node = None
        orelse = [stmt_ast(x, seq) for x in (s[2] or [])]
        for cond, body in reversed(s[1]):
            node = ast.If(test=to_ast(cond), body=[stmt_ast(x, seq) for x in body] or [ast.Pass()], orelse=orelse)
            orelse = [node]
        return node
    if k == 'match':
        cases = []
        for arm in s[2]:
            val, body = arm[0], arm[1]
            guard = to_ast(arm[2]) if len(arm) > 2 and arm[2] is not None else None
            cases.append(ast.match_case(pattern=ast.MatchValue(value=ast.Constant(value=val)), guard=guard,
                                        body=[stmt_ast(x, seq) for x in body] or [ast.Pass()]))
        dguard = to_ast(s[4]) if len(s) > 4 and s[4] is not None else None      # `case _ if cond:`
        cases.append(ast.match_case(pattern=ast.MatchAs(pattern=None, name=None), guard=dguard,
                                    body=[stmt_ast(x, seq) for x in (s[3] or [])] or [ast.Pass()]))
        return ast.Match(subject=to_ast(s[1]), cases=cases)
    if k == 'while':
        return ast.While(test=to_ast(s[1]), body=[stmt_ast(x, seq) for x in s[2]], orelse=[])
    if k == 'for':
        return ast.For(target=ast.Name(id=s[1], ctx=ast.Store()),
                       iter=ast.Call(func=ast.Name(id='range', ctx=ast.Load()), args=[ast.Constant(value=s[2])], keywords=[]),
                       body=[stmt_ast(x, seq) for x in s[3]], orelse=[], lineno=0)
    if k == 'tuple':
        return ast.Assign(targets=[ast.Tuple(elts=[target(s[1]), target(s[2])], ctx=ast.Store())],
                          value=ast.Tuple(elts=[to_ast(s[3]), to_ast(s[4])], ctx=ast.Load()), lineno=0)
    if k == 'print':
        return ast.Expr(value=ast.Call(func=ast.Name(id='print', ctx=ast.Load()), args=[to_ast(s[1])], keywords=[]))
    raise HarnessError('bad stmt ' + str(s))


def render(prog, clsname):
    seq = prog['kind'] == 'seq'
    lines = ['import py4hw', '', '', 'class {}(py4hw.Logic):'.format(clsname)]
    args = [p[0] for p in prog['ins']] + [p[0] for p in prog['outs']] + [c[0] for c in prog['consts']]
    lines.append('    def __init__(self, parent, name, {}):'.format(', '.join(args)))
    lines.append('        super().__init__(parent, name)')
    for n, w in prog['ins']:
        lines.append("        self.{0} = self.addIn('{1}', {0})".format(n, prog.get('portname', {}).get(n, n)))
    for n, w in prog['outs']:
        lines.append("        self.{0} = self.addOut('{1}', {0})".format(n, prog.get('portname', {}).get(n, n)))
    for n, v in prog.get('init_first', []):
        lines.append('        self.{} = {}'.format(n, v))        # a default that the constructor overwrites further down
    for n, v in prog['state']:
        lines.append('        self.{} = {}'.format(n, prog.get('init_expr', {}).get(n, v)))
    for n, v in prog['consts']:
        lines.append('        self.{0} = {0}'.format(n))
    for extra in prog.get('init_extra', []):
        lines.append('        ' + extra)
    lines.append('')
    if prog.get('helper'):
        lines.append('    def helper(self, x):')
        lines.append('        return x + 1')
        lines.append('')
    lines.append('    def {}(self):'.format('clock' if seq else 'propagate'))
    body = [stmt_ast(s, seq) for s in prog['body']] or [ast.Pass()]
    m = ast.Module(body=body, type_ignores=[])
    ast.fix_missing_locations(m)
    for l in ast.unparse(m).splitlines():
        lines.append('        ' + l)
    return '\n'.join(lines) + '\n'


def load_class(src, clsname):
    _COUNT[0] += 1
    modname = 'c02prog_{}_{}'.format(os.getpid(), _COUNT[0])
    path = os.path.join(tmpdir(), modname + '.py')
    with open(path, 'w') as f:
        f.write(src)
    spec = importlib.util.spec_from_file_location(modname, path)
    mod = importlib.util.module_from_spec(spec)
    sys.modules[modname] = mod
    spec.loader.exec_module(mod)
    return getattr(mod, clsname), modname, path


# ---- reference execution of the domain: nothing - the live object is the Python side ----------------------------------------
def state_names(prog):
    return [n for n, _ in prog['state']]


def instantiate(prog, cls):
    sysm = py4hw.HWSystem()
    ins = [sysm.wire(n, w) for n, w in prog['ins']]
    outs = [sysm.wire(n, w) for n, w in prog['outs']]
    obj = cls(sysm, 'dut', *ins, *outs, *[v for _, v in prog['consts']])
    return sysm, obj, ins, outs


def features(prog):
    """grammar features present in the program (used in signatures)"""
    fs = set()

    def ex(e, top=False):
        k = e[0]
        if k == 'cmp':
            fs.add('Compare')
            if e[3][0] in ('bin', 'inv', 'cmp'):
                fs.add('Compare-with-BinOp-rhs')       # any operator expression on the right (known finding c02-compare-precedence)
            if e[2][0] in ('bin', 'inv'):
                fs.add('Compare-with-BinOp-lhs')
        if k in ('and', 'or'):
            fs.add('BoolOp' + (str(len(e) - 1) if len(e) > 3 else ''))
        if k == 'not':
            fs.add('Not')
        if k == 'tern':
            fs.add('IfExp')
        if k == 'bin':
            fs.add('BinOp' + e[1])
        if k == 'inv':
            fs.add('Invert')
        if k == 'k':
            fs.add('ctor-const')
        for x in e[1:]:
            if isinstance(x, list):
                ex(x)

    def stv(s):
        k = s[0]
        fs.add('stmt:' + k)
        if k in ('assign', 'out'):
            ex(s[2])
            if k == 'assign' and s[2][0] == 'tern':
                fs.add('IfExp-in-Assign')
            if k == 'out' and s[2][0] == 'tern':
                fs.add('IfExp-in-call')
        elif k == 'aug':
            ex(s[3])
        elif k == 'if':
            for c, b in s[1]:
                ex(c)
                for x in b:
                    stv(x)
            for x in s[2] or []:
                stv(x)
        elif k == 'match':
            for arm in s[2]:
                if len(arm) > 2 and arm[2] is not None:
                    fs.add('match-guard')
                    ex(arm[2])
                for x in arm[1]:
                    stv(x)
            if len(s) > 4 and s[4] is not None:
                fs.add('match-guard')
                ex(s[4])
            for x in s[3] or []:
                stv(x)
    for s in prog['body']:
        stv(s)
    if prog.get('portname'):
        fs.add('port-attr!=port-name')
    return fs


KNOWN_TRIGGERS = {
    'Compare-with-BinOp-rhs': 'c02-compare-precedence',
    'IfExp-in-Assign': 'c02-ternary-statement',
    'port-attr!=port-name': 'c02-port-attribute-name',
}


def run_program(case):
    prog = case['prog']
    unsupported = case.get('unsupported')
    tags = ['kind:' + prog['kind']] + (['unsupported:' + unsupported] if unsupported else [])
    clsname = 'Gen'
    src = render(prog, clsname)
    try:
        cls, modname, path = load_class(src, clsname)
    except Exception as e:
        raise HarnessError('generated program does not import: {!r}\n{}'.format(e, src))
    try:
        return _run_program(case, prog, cls, src, tags, unsupported)
    finally:
        sys.modules.pop(modname, None)
        try:
            os.remove(path)
        except OSError:
            pass


def _run_program(case, prog, cls, src, tags, unsupported):
    feats = features(prog)
    known = sorted(KNOWN_TRIGGERS[f] for f in feats if f in KNOWN_TRIGGERS)
    ktag = ('|' + '+'.join(known)) if known else ''
    seq = prog['kind'] == 'seq'
    if case.get('decoy_other'):
        # an unrelated class whose *ports* are called like the locals / state / constants of the program is transpiled
        # first: nothing the transpiler learnt from it may leak into the text of the class under test
        try:
            from ..behav_blocks import DecoyPorts
            dsys = py4hw.HWSystem()
            dw = [dsys.wire(n, 8) for n in ('x0', 'x1', 's0', 'k0', 'q')]
            py4hw.VerilogGenerator(DecoyPorts(dsys, 'decoy', *dw)).getVerilog(noInstanceNumber=True)
        except Exception:
            pass
        tags.append('decoy_other_class_first')
    if case.get('decoy') is not None and prog['consts']:
        # another instance of the same class, built with other constructor constants, is transpiled first: what the
        # transpiler learnt from it must not leak into the text of the instance under test
        try:
            dprog = dict(prog, consts=[[n, v] for (n, _), v in zip(prog['consts'], case['decoy'])])
            _, dobj, _, _ = instantiate(dprog, cls)
            py4hw.VerilogGenerator(dobj).getVerilog(noInstanceNumber=True)
        except Exception:
            pass
        tags.append('decoy_instance_first')
    try:
        sysm, obj, ins, outs = instantiate(prog, cls)
    except Exception as e:
        raise HarnessError('generated class cannot be instantiated: {!r}\n{}'.format(e, src))
    # Python side first: does the program run at all on these inputs (e.g. unsupported construct programs may not)?
    try:
        text = py4hw.VerilogGenerator(obj).getVerilog(noInstanceNumber=True)
    except Exception as e:
        return ok(False, tags + ['refused'] + (['refused:' + unsupported] if unsupported else []))
    tags.append('text_returned')
    try:
        mods = vlog.parse(text)
    except vlog.VParseError as e:
        return fail('illegal_text|parse{}{}'.format('|unsupported:' + unsupported if unsupported else '', ktag),
                    'the transpiler returned text that does not parse: {}\n--- python ---\n{}--- verilog ---\n{}'.format(e, src, text[:1200]), cls=tags)
    problems = vcheck.check_design(mods)
    if problems:
        return fail('illegal_text|{}{}{}'.format(problems[0][0], '|unsupported:' + unsupported if unsupported else '', ktag),
                    'the transpiler returned ill-formed text: {}\n--- python ---\n{}--- verilog ---\n{}'.format(problems[0][1], src, text[:1200]), cls=tags)
    sim = sysm.getSimulator()
    in_names = [py4hw.rtl_generation.getPortName(p) for p in obj.inPorts]
    first = [v & mask(w) for v, (n, w) in zip(case['inputs'][0], prog['ins'])]
    try:
        # elaborated with the first input vector and the domain guard armed: the evaluation done at time 0 is the one
        # judged in cycle 0 when the inputs do not change afterwards
        vs = vlog.Sim(mods, mods[0].name, inputs=dict(zip(in_names, first)), guard=True)
    except vlog.VSimError as e:
        return fail('illegal_text|elaboration' + ktag, 'text does not elaborate: {}\n{}'.format(e, text[:800]), cls=tags)
    out_names = [py4hw.rtl_generation.getPortName(p) for p in obj.outPorts]
    stn = state_names(prog)
    paths = set()
    changed = False
    prev = None
    cut = False
    for t, vec in enumerate(case['inputs']):
        vec = [v & mask(w) for v, (n, w) in zip(vec, prog['ins'])]
        for w_, v in zip(ins, vec):
            w_.put(v)
        for n, v in zip(in_names, vec):
            vs.poke(n, v)
        before = vs.domain_violations if t > 0 else 0
        try:
            if seq:
                sim.clk(1)
            else:
                sim.propagateAll()
        except Exception as e:
            if unsupported:
                return ok(False, tags + ['python_side_raises'])
            if isinstance(e, (ValueError, ZeroDivisionError, OverflowError)):
                # e.g. a shift by a local that went negative: the Python method itself has no value here
                tags.append('cut:python_raises')
                cut = True
                break
            raise HarnessError('generated program raised in Python: {!r}\n{}'.format(e, src))
        try:
            if seq:
                vs.cycle()
            else:
                vs.settle()
        except vlog.VSimError as e:
            return fail('verilog_does_not_converge' + ktag, '{}\n{}'.format(e, text[:800]), cls=tags)
        if vs.undefined_events:
            cut = True
            tags.append('cut:undefined')
            break
        if vs.domain_violations > before:
            cut = True
            tags.append('cut:outside_domain')
            break
        py_out = [w_.get() for w_ in outs]
        vl_out = [vs.peek(n) for n in out_names]
        py_st = [getattr(obj, n) for n in stn]
        vl_st = []
        for n in stn:
            s = vs.top.sigs.get(n)
            vl_st.append(None if s is None else vlog.Sim.sval(s.value, s.width) if s.signed else s.value)
        if any(isinstance(v, int) and not (0 <= v < (1 << 31)) for v in py_st):
            cut = True
            tags.append('cut:state_outside_domain')
            break
        if py_out != vl_out or any(v is not None and a != v for a, v in zip(py_st, vl_st)):
            what = 'outputs' if py_out != vl_out else 'state'
            sig = 'behaviour_differs|{}{}{}'.format(what, '|unsupported:' + unsupported if unsupported else '', ktag)
            if not known and not unsupported:
                sig += '|' + '+'.join(sorted(f for f in feats if not f.startswith('stmt:') and not f.startswith('BinOp')))[:80]
            return fail(sig, 'cycle {} inputs {}: python outputs {} state {} ; verilog outputs {} state {}\n--- python ---\n{}--- verilog ---\n{}'.format(
                t, vec, py_out, dict(zip(stn, py_st)), vl_out, dict(zip(stn, vl_st)), src, text[:1500]), cls=tags)
        snap = (tuple(py_out), tuple(py_st))
        if prev is not None and snap != prev:
            changed = True
        prev = snap
        paths.add(tuple(py_st))
    for k in known:
        tags.append('known_trigger:' + k)
    return ok(changed and len(paths) >= 2 or (not seq and changed), tags)


# ---- program generator ----------------------------------------------------------------------------------------------------
@st.composite
def programs(draw, kind=None, allow_known=False):
    kind = kind or draw(st.sampled_from(['seq', 'seq', 'comb']))
    n_in = draw(st.integers(1, 3))
    n_out = draw(st.integers(1, 2))
    wset = [1, 2, 4, 8, 8, 16, 32]
    ins = [('a%d' % i, draw(st.sampled_from(wset))) for i in range(n_in)]
    outs = [('q%d' % i, draw(st.sampled_from(wset))) for i in range(n_out)]
    state = [('s%d' % i, draw(st.integers(0, 5))) for i in range(draw(st.integers(0, 3)))] if kind == 'seq' else []
    consts = [('k%d' % i, draw(st.integers(0, 9))) for i in range(draw(st.integers(0, 2)))]
    locs = ['x%d' % i for i in range(draw(st.integers(1, 3)))]

    def atom(defined):
        opts = [st.integers(0, 12).map(lambda v: ['c', v])]
        opts.append(st.sampled_from(ins).map(lambda p: ['in', p[0]]))
        if defined:
            opts.append(st.sampled_from(sorted(defined)).map(lambda n: ['loc', n]))
        if state:
            opts.append(st.sampled_from(state).map(lambda p: ['st', p[0]]))
        if consts:
            opts.append(st.sampled_from(consts).map(lambda p: ['k', p[0]]))
        return draw(st.one_of(*opts))

    def expr(defined, depth):
        if depth <= 0 or draw(st.integers(0, 3)) == 0:
            return atom(defined)
        op = draw(st.sampled_from(['+', '+', '-', '*', '//', '%', '&', '|', '^', '<<', '>>', 'inv', 'mask']))
        a = expr(defined, depth - 1)
        if op == 'inv':
            return ['inv', a, draw(st.sampled_from([4, 8, 16]))]
        if op == 'mask':
            if draw(st.integers(0, 4)) == 0:
                # 32-bit constants (sign-bit masks and their neighbours) combined with a 32-bit operand
                big = draw(st.sampled_from([0x80000000, 0x7FFFFFFF, 0xFFFFFFFF, 0x80000001, 0x40000000, 0xFFFF0000]))
                return ['bin', draw(st.sampled_from(['&', '^', '|'])), a, ['c', big]]
            return ['bin', '&', a, ['c', draw(st.sampled_from([1, 3, 15, 255, 65535]))]]
        if op in ('<<', '>>'):
            return ['bin', op, a, ['c', draw(st.integers(0, 4))]]
        if op in ('//', '%'):
            d = draw(st.one_of(st.integers(1, 9).map(lambda v: ['c', v]), st.just(None)))
            if d is None:
                d = ['bin', '|', expr(defined, depth - 1), ['c', 1]]
            return ['bin', op, a, d]
        return ['bin', op, a, expr(defined, depth - 1)]

    def cond(defined, depth):
        k = draw(st.sampled_from(['cmp', 'cmp', 'cmp', 'and', 'or', 'not', 'truth']))
        if depth <= 0:
            k = 'cmp'
        if k == 'cmp':
            rhs = atom(defined)
            if allow_known and draw(st.integers(0, 3)) == 0:
                rhs = expr(defined, 1)
            return ['cmp', draw(st.sampled_from(sorted(CMPOPS))), expr(defined, 1), rhs]
        if k in ('and', 'or'):
            n = draw(st.sampled_from([2, 2, 3, 3, 4, 5, 6, 7]))      # flat n-ary BoolOp chains
            if n <= 3:
                return [k] + [cond(defined, depth - 1) for _ in range(n)]
            # long chains: most operands hold the neutral value of the operator (true for and, false for or) on
            # non-negative data, so that the late operands decide the result
            terms = []
            for _ in range(n):
                if draw(st.integers(0, 9)) < 6:
                    terms.append(['cmp', '>=' if k == 'and' else '<', atom(defined), ['c', 0]])
                elif draw(st.booleans()):
                    terms.append(['cmp', '==', ['bin', '&', atom(defined), ['c', 1]], ['c', draw(st.integers(0, 1))]])
                else:
                    terms.append(cond(defined, 0))
            return [k] + terms
        if k == 'not':
            return ['not', cond(defined, depth - 1)]
        return ['cmp', '!=', atom(defined), ['c', 0]]

    def block(defined, depth, n_max):
        out = []
        for _ in range(draw(st.integers(1, n_max))):
            k = draw(st.sampled_from(['assign', 'assign', 'stassign', 'aug', 'out', 'out', 'if', 'match']))
            if k == 'assign':
                v = draw(st.sampled_from(locs))
                e = expr(defined, 2)
                if allow_known and draw(st.integers(0, 5)) == 0:
                    e = ['tern', cond(defined, 1), expr(defined, 1), expr(defined, 1)]
                out.append(['assign', ['loc', v], e])
                defined = defined | {v}
            elif k == 'stassign' and state:
                out.append(['assign', ['st', draw(st.sampled_from(state))[0]], ['bin', '&', expr(defined, 2), ['c', draw(st.sampled_from([3, 7, 255]))]]])
            elif k == 'aug' and (state or defined):
                tg = draw(st.sampled_from([['st', s[0]] for s in state] + [['loc', v] for v in sorted(defined)]))
                out.append(['aug', tg, draw(st.sampled_from(['+', '+', '-', '*', '&', '|', '^', '>>'])), atom(defined)])
            elif k == 'out':
                out.append(['out', draw(st.sampled_from(outs))[0], expr(defined, 2)])
            elif k == 'if' and depth > 0:
                arms = []
                for _ in range(draw(st.integers(1, 3))):
                    arms.append([cond(defined, 2), block(defined, depth - 1, 2)[0]])
                els = block(defined, depth - 1, 2)[0] if draw(st.booleans()) else None
                out.append(['if', arms, els])
            elif k == 'match' and state and depth > 0:
                sv = draw(st.sampled_from(state))[0]
                vals = draw(st.lists(st.integers(0, 5), min_size=1, max_size=3, unique=True))
                arms = []
                for v in vals:
                    if draw(st.integers(0, 3)) == 0:
                        # guarded arm (`case v if cond:`): when the guard fails the following arms are tried
                        arms.append([v, block(defined, depth - 1, 2)[0], cond(defined, 1)])
                        if draw(st.booleans()):
                            arms.append([v, block(defined, depth - 1, 2)[0]])
                    else:
                        arms.append([v, block(defined, depth - 1, 2)[0]])
                dflt = block(defined, depth - 1, 2)[0] if draw(st.booleans()) else None
                m = ['match', ['st', sv], arms, dflt]
                if dflt is not None and draw(st.integers(0, 3)) == 0:
                    m.append(cond(defined, 1))           # guarded catch-all
                out.append(m)
        return out, defined
    # every local is assigned first (no read-before-write), then a nest of statements, then every output is driven
    body = [['assign', ['loc', v], atom(set())] for v in locs]
    inner, _ = block(set(locs), 3, 4)
    body += inner
    # every output is driven (unconditionally at the end: a combinational block must drive its outputs on every path,
    # and an output that is never assigned would be a defect of the generated program, not of the transpiler)
    for o, w in outs:
        body.append(['out', o, expr(set(locs), 2)])
    prog = {'kind': kind, 'ins': ins, 'outs': outs, 'state': state, 'consts': consts, 'body': body}
    if state and draw(st.integers(0, 3)) == 0:
        n0, v0 = draw(st.sampled_from(state))
        prog['init_first'] = [[n0, draw(st.integers(0, 9).filter(lambda x: x != v0))]]
    if allow_known and draw(st.integers(0, 9)) == 0:
        prog['portname'] = {ins[0][0]: ins[0][0] + '_p'}
    return prog


@st.composite
def cases(draw, n_cycles, allow_known=False):
    prog = draw(programs(allow_known=allow_known))
    from ..cat_arith import value_st
    n = draw(st.integers(2, n_cycles))
    small = st.integers(0, 7)
    seq = [[draw(st.one_of(small, value_st(w))) for _, w in prog['ins']] for _ in range(n)]
    case = {'kind': 'program', 'prog': prog, 'inputs': seq}
    if prog['consts'] and draw(st.booleans()):
        case['decoy'] = [draw(st.integers(0, 9).filter(lambda x, v=v: x != v)) for _, v in prog['consts']]
    if draw(st.integers(0, 3)) == 0:
        case['decoy_other'] = True
    return case


@st.composite
def chain_cases(draw, n_cycles):
    """flat n-ary and / or chains (2..9 operands) over independent input predicates decide a state update / an output;
    the inputs are drawn so that the leading operands usually hold the neutral value and any operand can decide"""
    kind = draw(st.sampled_from(['seq', 'comb']))
    n = draw(st.integers(2, 9))
    op = draw(st.sampled_from(['and', 'or']))
    n_in = draw(st.integers(2, 4))
    ins = [('a%d' % i, draw(st.sampled_from([1, 2, 4, 8]))) for i in range(n_in)]
    terms = []
    for j in range(n):
        a, w = ins[j % n_in] if j < n_in else draw(st.sampled_from(ins))
        bit = draw(st.integers(0, w - 1))
        pol = draw(st.integers(0, 1))
        t = ['cmp', '==', ['bin', '&', ['bin', '>>', ['in', a], ['c', bit]], ['c', 1]], ['c', pol]]
        if draw(st.integers(0, 4)) == 0:
            t = ['cmp', draw(st.sampled_from(['<', '>=', '!='])), ['in', a], ['c', draw(st.integers(0, mask(w)))]]
        terms.append(t)
    chain = [op] + terms
    if draw(st.integers(0, 3)) == 0:
        chain = ['not', chain]
    if kind == 'seq':
        state = [('s0', 0)]
        body = [['if', [[chain, [['assign', ['st', 's0'], ['bin', '&', ['bin', '+', ['st', 's0'], ['c', 1]], ['c', 255]]]]]],
                 [['assign', ['st', 's0'], ['bin', '&', ['bin', '+', ['st', 's0'], ['c', 2]], ['c', 255]]]] if draw(st.booleans()) else None],
                ['out', 'q0', ['st', 's0']]]
    else:
        state = []
        body = [['assign', ['loc', 'x0'], ['c', 0]],
                ['if', [[chain, [['assign', ['loc', 'x0'], ['c', 1]]]]], None],
                ['out', 'q0', ['loc', 'x0']]]
    prog = {'kind': kind, 'ins': ins, 'outs': [('q0', 8)], 'state': state, 'consts': [], 'body': body}
    # stimulus: each vector starts from the assignment that makes every term neutral, then a few bits are flipped
    neutral = 1 if op == 'and' else 0
    seq = []
    for _ in range(draw(st.integers(4, n_cycles))):
        vec = {a: 0 for a, _ in ins}
        for t in terms:
            if t[2][0] == 'bin':
                a, bit, pol = t[2][2][2][1], t[2][2][3][1], t[3][1]
                want = pol if neutral else 1 - pol
                vec[a] = (vec[a] & ~(1 << bit)) | (want << bit)
        for a, w in ins:
            if draw(st.integers(0, 2)) == 0:
                vec[a] ^= 1 << draw(st.integers(0, w - 1))
        seq.append([vec[a] for a, _ in ins])
    return {'kind': 'program', 'prog': prog, 'inputs': seq}


@st.composite
def match_cases(draw, n_cycles):
    """small state machines written with match / case: several arms per value, guards on the arms and on the catch-all;
    the guards look at single input bits so that they are true and false often"""
    ins = [('a0', 2), ('a1', 1)]
    outs = [('q0', 8)]
    state = [('s0', draw(st.integers(0, 3))), ('s1', 0)]

    def guard():
        g = ['cmp', '==', ['bin', '&', ['in', 'a0'], ['c', draw(st.sampled_from([1, 2]))]], ['c', 0]] if draw(st.booleans()) else \
            ['cmp', '!=', ['in', 'a1'], ['c', 0]]
        return ['not', g] if draw(st.integers(0, 3)) == 0 else g

    def arm_body():
        b = [['assign', ['st', 's0'], ['c', draw(st.integers(0, 3))]]]
        if draw(st.booleans()):
            b.append(['assign', ['st', 's1'], ['bin', '&', ['bin', '+', ['st', 's1'], ['c', draw(st.integers(1, 5))]], ['c', 255]]])
        return b
    arms = []
    for _ in range(draw(st.integers(1, 4))):
        v = draw(st.integers(0, 3))
        arms.append([v, arm_body(), guard() if draw(st.integers(0, 2)) else None])
    dflt = arm_body() if draw(st.integers(0, 3)) else None
    m = ['match', ['st', 's0'], arms, dflt]
    if dflt is not None and draw(st.booleans()):
        m.append(guard())
    body = [m, ['out', 'q0', ['bin', '+', ['bin', '*', ['st', 's0'], ['c', 64]], ['bin', '&', ['st', 's1'], ['c', 63]]]]]
    prog = {'kind': 'seq', 'ins': ins, 'outs': outs, 'state': state, 'consts': [], 'body': body}
    seq = [[draw(st.integers(0, 3)), draw(st.integers(0, 1))] for _ in range(draw(st.integers(4, n_cycles)))]
    return {'kind': 'program', 'prog': prog, 'inputs': seq}


@st.composite
def constant_cases(draw, n_cycles):
    """integer literals of every magnitude up to 32 bits (powers of two and their neighbours, all-ones patterns) combined with
    32-bit inputs and written straight to 32-bit outputs, so that no signed 32-bit variable gets in the way"""
    kind = draw(st.sampled_from(['seq', 'comb']))
    ins = [('a0', 32), ('a1', 32)]
    outs = [('q0', 32), ('q1', 32)]
    body = []
    for o, _ in outs:
        k = draw(st.integers(0, 32))
        c = draw(st.sampled_from([1 << k, (1 << k) - 1, (1 << k) + 1])) & 0xFFFFFFFF
        op = draw(st.sampled_from(['&', '|', '^', '&', '^']))
        a = ['in', draw(st.sampled_from(ins))[0]]
        e = ['bin', op, a, ['c', c]] if draw(st.booleans()) else ['bin', op, ['c', c], a]
        if draw(st.integers(0, 3)) == 0:
            e = ['bin', '>>', e, ['c', draw(st.integers(0, 31))]]
        body.append(['out', o, e])
    prog = {'kind': kind, 'ins': ins, 'outs': outs, 'state': [], 'consts': [], 'body': body}
    seq = [[draw(st.sampled_from([0, 0xFFFFFFFF, 0x80000000, 0x7FFFFFFF, 0xAAAAAAAA, 0x55555555, 1])) if draw(st.booleans()) else draw(st.integers(0, 0xFFFFFFFF))
            for _ in ins] for _ in range(draw(st.integers(2, n_cycles)))]
    return {'kind': 'program', 'prog': prog, 'inputs': seq}


@st.composite
def unsupported_cases(draw, n_cycles):
    prog = draw(programs(kind='seq'))
    which = draw(st.sampled_from(['while', 'for', 'pow', 'chained_compare', 'list_index', 'tuple_assign', 'helper_call',
                                  'bool_as_value', 'nonconst_init', 'print_side_effect', 'ternary_in_call']))
    loc = 'x0'
    o = prog['outs'][0][0]
    a = prog['ins'][0][0]
    if which == 'while':
        prog['body'].append(['assign', ['loc', 'i'], ['c', 0]])
        prog['body'].append(['while', ['cmp', '<', ['loc', 'i'], ['c', 3]], [['aug', ['loc', 'i'], '+', ['c', 1]]]])
        prog['body'].append(['out', o, ['loc', 'i']])
    elif which == 'for':
        prog['body'].append(['assign', ['loc', 'acc'], ['c', 0]])
        prog['body'].append(['for', 'j', 3, [['aug', ['loc', 'acc'], '+', ['loc', 'j']]]])
        prog['body'].append(['out', o, ['loc', 'acc']])
    elif which == 'pow':
        prog['body'].append(['out', o, ['bin', '**', ['bin', '&', ['in', a], ['c', 3]], ['c', 2]]])
    elif which == 'chained_compare':
        prog['body'].append(['if', [[['chain', ['c', 1], ['in', a], ['c', 9]], [['out', o, ['c', 1]]]]], [['out', o, ['c', 0]]]])
    elif which == 'list_index':
        prog['init_extra'] = ['self.table = [3, 1, 4, 1]']
        prog['body'].append(['out', o, ['index', 'table', ['bin', '&', ['in', a], ['c', 3]]]])
    elif which == 'tuple_assign':
        prog['body'].append(['tuple', ['loc', 'u'], ['loc', 'v'], ['in', a], ['c', 2]])
        prog['body'].append(['out', o, ['bin', '+', ['loc', 'u'], ['loc', 'v']]])
    elif which == 'helper_call':
        prog['helper'] = True
        prog['body'].append(['out', o, ['call', 'helper', ['in', a]]])
    elif which == 'float_const':
        prog['body'].append(['assign', ['loc', 'f'], ['float', 1.5]])
        prog['body'].append(['out', o, ['c', 1]])
    elif which == 'bool_as_value':
        # comparison results used as numbers: (a > 2) + 1, (a != 0) + (b != 0), (a != 0) & (b != 0) ...
        def cmpv():
            src = draw(st.sampled_from(prog['ins']))[0]
            return ['cmp', draw(st.sampled_from(['>', '!=', '!=', '==', '<='])), ['in', src], ['c', draw(st.sampled_from([0, 0, 1, 2]))]]
        rhs = draw(st.sampled_from([['c', 1], None, None]))
        if draw(st.integers(0, 2)) == 0:
            # a comparison of comparison results: (a == b) <= (c > 2), "p implies q" ... (parenthesised on the Python side)
            # the right operand is an input or a constant: an operator expression there is the known finding
            # c02-compare-precedence
            src = draw(st.sampled_from(prog['ins']))[0]
            prog['body'].append(['out', o, ['cmp', draw(st.sampled_from(['<=', '<', '>=', '>', '==', '!='])), cmpv(),
                                            draw(st.sampled_from([['in', src], ['c', 0], ['c', 1]]))]])
        else:
            prog['body'].append(['out', o, ['bin', draw(st.sampled_from(['+', '+', '&', '|', '^'])), cmpv(), rhs or cmpv()]])
    elif which == 'nonconst_init':
        prog['state'].append(['sz', 0])
        prog['init_expr'] = {'sz': '1 + 2'}
        prog['body'].append(['out', o, ['st', 'sz']])
    elif which == 'print_side_effect':
        prog['body'].append(['print', ['in', a]])
    elif which == 'ternary_in_call':
        prog['body'].append(['out', o, ['tern', ['cmp', '>', ['in', a], ['c', 1]], ['c', 5], ['c', 6]]])
    from ..cat_arith import value_st
    n = draw(st.integers(2, n_cycles))
    seq = [[draw(value_st(w)) for _, w in prog['ins']] for _ in range(n)]
    return {'kind': 'program', 'prog': prog, 'inputs': seq, 'unsupported': which}


# ---- corpus: the library's own behavioural blocks ----------------------------------------------------------------------
def corpus_build(name, sysm):
    import py4hw.emulation.vitiswrapping as VW
    import py4hw.emulation.HILWrapperUART as HIL
    import py4hw.logic.protocol.uart as UART
    from py4hw.logic.protocol.uart.clock import ClockSyncFSM
    w = sysm.wire
    if name == 'Axi2ClkFSM':
        i = [w('i0'), w('i1', 64), w('i2')]
        o = [w('o0', 64), w('o1'), w('o2')]
        return VW.Axi2ClkFSM(sysm, 'dut', i[0], i[1], i[2], o[0], o[1], o[2]), i, o, ['state', 'target'], [1, 3, 1]
    if name == 'VitisKernelFSM':
        i = [w('i0'), w('i1'), w('i2'), w('i3')]
        o = [w('o0'), w('o1'), w('o2')]
        return VW.VitisKernelFSM(sysm, 'dut', i[0], i[1], o[0], o[1], o[2], i[2], i[3]), i, o, ['state'], [1, 1, 1, 1]
    if name == 'UARTSerializer':
        i = [w('i0'), w('i1', 8), w('i2')]
        o = [w('o0'), w('o1')]
        return UART.UARTSerializer(sysm, 'dut', o[0], i[0], i[1], i[2], o[1]), i, o, ['state', 'count', 'txv'], [1, 8, 1]
    if name == 'UARTDeserializer':
        i = [w('i0'), w('i1'), w('i2')]
        o = [w('o0'), w('o1', 8), w('o2')]
        return UART.UARTDeserializer(sysm, 'dut', i[0], i[1], i[2], o[0], o[1], o[2]), i, o, ['state', 'count', 'state_v', 'temp'], [1, 1, 1]
    if name == 'ClockSyncFSM':
        i = [w('i0'), w('i1')]
        o = [w('o0'), w('o1')]
        return ClockSyncFSM(sysm, 'dut', i[0], i[1], o[0], o[1]), i, o, ['state'], [1, 1]
    if name == 'CMDRequest':
        i = [w('i0'), w('i1', 8)]
        o = [w('o0'), w('o1', 4), w('o2', 32), w('o3', 4), w('o4'), w('o5'), w('o6'), w('o7'), w('o8')]
        return HIL.CMDRequest(sysm, 'dut', o[0], i[0], i[1], o[1], o[2], o[3], o[4], o[5], o[6], o[7], o[8]), i, o, ['state', 'cur_type', 'new_c', 'temp'], [1, 8]
    if name == 'CMDResponse':
        i = [w('i0', 32), w('i1', 8), w('i2'), w('i3')]
        o = [w('o0'), w('o1', 8)]
        return HIL.CMDResponse(sysm, 'dut', i[0], i[1], i[2], i[3], o[0], o[1]), i, o, ['state', 'temp', 'temp_size', 'aux'], [32, 3, 1, 1]
    if name == 'AutoReset':
        o = [w('o0')]
        return py4hw.AutoReset(sysm, 'dut', o[0]), [], o, ['state'], []
    raise HarnessError(name)


CORPUS = ['Axi2ClkFSM', 'VitisKernelFSM', 'UARTSerializer', 'UARTDeserializer', 'ClockSyncFSM', 'CMDRequest', 'CMDResponse', 'AutoReset']
CMD_CHARS = [ord(c) for c in 'I0123456789ABCDEF=!O?K;\n']


def run_corpus(case):
    name = case['name']
    tags = ['corpus:' + name]
    sysm = py4hw.HWSystem()
    obj, ins, outs, stn, inbits = corpus_build(name, sysm)
    try:
        text = py4hw.VerilogGenerator(obj).getVerilog(noInstanceNumber=True)
    except Exception:
        return ok(False, tags + ['refused'])
    try:
        mods = vlog.parse(text)
    except vlog.VParseError as e:
        return fail('corpus|{}|illegal_text|parse'.format(name), '{}\n{}'.format(e, text[:1200]), cls=tags)
    problems = vcheck.check_design(mods)
    if problems:
        return fail('corpus|{}|illegal_text|{}'.format(name, problems[0][0]), '{}\n{}'.format(problems[0][1], text[:1500]), cls=tags)
    sim = sysm.getSimulator()
    in_names = [py4hw.rtl_generation.getPortName(p) for p in obj.inPorts]
    out_names = [py4hw.rtl_generation.getPortName(p) for p in obj.outPorts]
    in_wires = [p.wire for p in obj.inPorts]
    first = [v & mask(w_.getWidth()) for v, w_ in zip(case['inputs'][0], in_wires)]
    vs = vlog.Sim(mods, mods[0].name, inputs=dict(zip(in_names, first)), guard=True)
    # the internal state compared is every integer attribute of the object that the transpiler turned into a variable
    # of the module (discovered from the emitted text, so that private attributes may be renamed or replaced freely)
    stn = sorted(n for n, v in vars(obj).items() if isinstance(v, int) and not isinstance(v, bool) and n in vs.top.sigs
                 and n not in in_names and n not in out_names)
    out_wires = [p.wire for p in obj.outPorts]
    changed = False
    prev = None
    for t, vec in enumerate(case['inputs']):
        vec = [v & mask(w_.getWidth()) for v, w_ in zip(vec, in_wires)]
        for w_, v in zip(in_wires, vec):
            w_.put(v)
        for n, v in zip(in_names, vec):
            vs.poke(n, v)
        before = vs.domain_violations if t > 0 else 0
        sim.clk(1)
        vs.cycle()
        if vs.domain_violations > before or vs.undefined_events:
            tags.append('cut:outside_domain')
            break
        py_out = [w_.get() for w_ in out_wires]
        vl_out = [vs.peek(n) for n in out_names]
        py_st = [getattr(obj, n) for n in stn]
        vl_st = []
        for n in stn:
            s = vs.top.sigs.get(n)
            vl_st.append(None if s is None else (vlog.Sim.sval(s.value, s.width) if s.signed else s.value))
        if any(isinstance(v, int) and not (0 <= v < (1 << 31)) for v in py_st):
            tags.append('cut:state_outside_domain')
            break
        if py_out != vl_out or any(v is not None and a != v for a, v in zip(py_st, vl_st)):
            what = 'outputs' if py_out != vl_out else 'state'
            return fail('corpus|{}|behaviour_differs|{}'.format(name, what),
                        '{} cycle {} inputs {}: python outputs {} state {} ; verilog outputs {} state {}\n{}'.format(
                            name, t, vec, py_out, dict(zip(stn, py_st)), vl_out, dict(zip(stn, vl_st)), text[:1500]), cls=tags)
        snap = (tuple(py_out), tuple(py_st))
        if prev is not None and snap != prev:
            changed = True
        prev = snap
    return ok(changed, tags)


@st.composite
def corpus_cases(draw, n_cycles):
    name = draw(st.sampled_from(CORPUS))
    widths = {'Axi2ClkFSM': [1, 3, 1], 'VitisKernelFSM': [1, 1, 1, 1], 'UARTSerializer': [1, 8, 1], 'UARTDeserializer': [1, 1, 1],
              'ClockSyncFSM': [1, 1], 'CMDRequest': [1, 8], 'CMDResponse': [32, 3, 1, 1], 'AutoReset': []}[name]
    n = draw(st.integers(3, n_cycles))
    seq = []
    for _ in range(n):
        vec = []
        for k, w in enumerate(widths):
            if name == 'CMDRequest' and k == 1:
                vec.append(draw(st.sampled_from(CMD_CHARS)))
            elif name == 'CMDResponse' and k == 1:
                vec.append(draw(st.integers(1, 7)))
            else:
                vec.append(draw(st.integers(0, (1 << w) - 1)))
        seq.append(vec)
    return {'kind': 'corpus', 'name': name, 'inputs': seq}


def run_case(case):
    if case['kind'] == 'corpus':
        return run_corpus(case)
    return run_program(case)


def shrink_candidates(case):
    s = case['inputs']
    for i in range(len(s) - 1, 0, -1):
        yield dict(case, inputs=s[:i])
    if case['kind'] == 'program':
        body = case['prog']['body']
        for i in range(len(body) - 1, -1, -1):
            p2 = dict(case['prog'], body=body[:i] + body[i + 1:])
            yield dict(case, prog=p2)


def strata(tier):
    q = tier == 'quick'
    return [
        {'name': 'programs', 'kind': 'hyp', 'examples': 400 if q else 10000, 'strategy': lambda: cases(12 if q else 30), 'run_case': run_case},
        {'name': 'flat_boolean_chains', 'kind': 'hyp', 'examples': 150 if q else 4000, 'strategy': lambda: chain_cases(10 if q else 24), 'run_case': run_case},
        {'name': 'match_state_machines', 'kind': 'hyp', 'examples': 150 if q else 4000, 'strategy': lambda: match_cases(12 if q else 24), 'run_case': run_case},
        {'name': 'integer_literals', 'kind': 'hyp', 'examples': 120 if q else 3000, 'strategy': lambda: constant_cases(6), 'run_case': run_case},
        {'name': 'programs_with_known_triggers', 'kind': 'hyp', 'examples': 100 if q else 2000,
         'strategy': lambda: cases(8, allow_known=True), 'run_case': run_case},
        {'name': 'unsupported_constructs', 'kind': 'hyp', 'examples': 120 if q else 2400, 'strategy': lambda: unsupported_cases(6), 'run_case': run_case},
        {'name': 'library_behavioural_blocks', 'kind': 'hyp', 'examples': 160 if q else 4000, 'strategy': lambda: corpus_cases(40 if q else 120), 'run_case': run_case},
    ]

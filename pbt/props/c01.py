"""C01 - generated Verilog behaves exactly like the simulated structural design.

Differential: the py4hw cycle simulator versus the Verilog interpreter (pbt/vlog.py) executing the text that
VerilogGenerator returns for the same design, under the same input sequence from power-up, compared on
every top-level output on every cycle (cycle 0 = before the first edge)."""
import copy
import re

import py4hw
from hypothesis import strategies as st

from .. import vlog, vcheck, rtl, netgen
from ..vlog_selftest import selftest as vlog_selftest
from ..rtl import Refused
from ..netgen import netlists, build, is_state, ref_trace, sig_w
from ..bench import mask
from ..runner import ok, fail, discard, HarnessError, exception_signature
from ..cat_arith import E as ARITH, value_st
from ..cat_logic import L as LOGIC
from . import c09, c03

PROP = 'C01'
RULE = ('case = (design, input sequence from power-up). Stratum blocks: every catalogue block (arithmetic, logic, '
        'sequential incl. memories) inside a structural top, so that each inline emitter, built-in body and verilogBody is '
        'exercised; stratum netlists: generated compositions (hierarchy depth 0..3, fan-out, shared named modules, '
        'per-instance modules, constants, shift amounts, registers with enable/reset). Non-trivial iff some output is not '
        'constant over the run. Distinct by JSON hash. Runs in which the Verilog semantics are undefined (division or '
        'modulo by zero) are discarded and counted.')
ASSUMPTIONS = [
    'A1: a reg / memory without an initialiser powers up to 0 (FPGA convention, and the simulator\'s own)',
    'the Verilog interpreter pbt/vlog.py implements IEEE 1364-2005 sizing, signedness and scheduling for the emitted subset (self-tested on hand-derived vectors before every run)',
    'designs have a single clock driver (data-derived clocks have an inherent one-cycle skew between a cycle simulator and an edge-triggered netlist)',
    'text that fails to parse or elaborate is the verdict of C03 and is discarded here (counted)',
    'a constant part-select that reaches above the declared range reads 0 for the missing bits (two-state)',
]


def selftest():
    return vlog_selftest()


def vl_port_names(top):
    ins = [py4hw.rtl_generation.getPortName(p) for p in top.inPorts]
    outs = [py4hw.rtl_generation.getPortName(p) for p in top.outPorts]
    return ins, outs


def compare_run(sysm, top, ins, outs, seq, tags, localize=None, capture=None):
    """returns result dict"""
    try:
        text = rtl.generate(top)
    except Refused:
        return discard('generation_refused', tags)
    try:
        mods = vlog.parse(text)
    except vlog.VParseError:
        return discard('text_does_not_parse(C03)', tags)
    if vcheck.check_design(mods):
        return discard('text_not_well_formed(C03)', tags)
    in_names, out_names = vl_port_names(top)
    topname = mods[0].name
    for w, v in zip(ins, seq[0]):
        w.put(v)
    sim = sysm.getSimulator()
    # the simulator trace first, then the Verilog text is executed over the same stimulus.  An out-of-range memory / bit
    # index reads x in Verilog (IEEE 1364-2005 5.2.2): the text is run with such reads returning all zeros and, if any
    # occurred, again with all ones - an output that follows the fill is undefined in Verilog and cannot equal the
    # (always defined) simulator value in both runs
    trace = [[w.get() for w in outs]]
    internal = [capture() if capture else None]
    for vec in seq:
        for w, v in zip(ins, vec):
            w.put(v)
        sim.clk(1)
        trace.append([w.get() for w in outs])
        internal.append(capture() if capture else None)

    def run_text(fill):
        """returns (vs, first mismatch or 'undefined' or None)"""
        vs = vlog.Sim(mods, topname, inputs={n: v for n, v in zip(in_names, seq[0])}, oob_fill=fill)
        for t in range(len(seq) + 1):
            if t > 0:
                for n, v in zip(in_names, seq[t - 1]):
                    vs.poke(n, v)
                vs.cycle()
            vv = [vs.peek(n) for n in out_names]
            if vs.undefined_events:
                return vs, 'undefined'
            if trace[t] != vv:
                k = [i for i in range(len(vv)) if trace[t][i] != vv[i]][0]
                return vs, (t, k, trace[t][k], vv[k])
        return vs, None
    try:
        vs, r = run_text(0)
        if r is None and vs.oob_reads:
            tags = tags + ['out_of_range_index_read']
            vs, r = run_text(1)
    except vlog.VSimError as e:
        if 'non-convergence' in str(e):
            return fail('verilog_does_not_converge', str(e), cls=tags)
        return discard('text_does_not_elaborate(C03)', tags)
    if r == 'undefined':
        return discard('undefined_in_verilog(div_by_zero)', tags)
    if r is not None:
        cyc, k, pv, vv = r
        where = 'cycle0' if cyc == 0 else 'later'
        detail = ''
        if localize is not None:
            detail = localize(vs, cyc, internal[cyc])
        return ('mismatch', where, detail,
                'output {} ({}) at cycle {}: simulator {} , Verilog {} ; inputs {}\n--- text (head) ---\n{}'.format(
                    k, out_names[k], cyc, pv, vv, seq[:cyc + 1][-3:], text[:900]))
    nt = any(trace[i] != trace[0] for i in range(1, len(trace)))
    if vs.x_as_zero:
        tags = tags + ['x_read_as_zero']
    return ok(nt, tags + ['modules={}'.format(min(len(mods), 5))])


# ---- blocks -----------------------------------------------------------------------------------------------------
def block_io(name, cfg):
    if name in c09.BLOCKS:
        Mcls, bld = c09.BLOCKS[name]
        model = Mcls(cfg)
        return model.ports(), model.outs(), (lambda t, i, o: bld(t, i, o, cfg)), c09.cfg_class(name, cfg)
    cat = ARITH if name in ARITH else LOGIC
    e = cat[name]
    return e.inw(cfg), e.outw(cfg), (lambda t, i, o: e.build(t, i, o, cfg)), e.cls(cfg)


def run_block(case):
    name, cfg = case['block'], case['cfg']
    tags = ['block:' + name]
    inw, outw, builder, cc = block_io(name, cfg)
    try:
        sysm, top, ins, outs, blk = rtl.wrap(inw, outw, builder)
    except HarnessError:
        raise
    except Exception:
        return discard('rejected_by_constructor', tags)
    seq = [[v & mask(w) for v, w in zip(vec, inw)] for vec in case['inputs']]
    if name == 'DualPortSynchronousMemory':
        for v in seq:
            if v[2] and v[6] and v[1] == v[5]:
                v[6] = 0
    r = compare_run(sysm, top, ins, outs, seq, tags)
    if isinstance(r, tuple):
        feats = []
        if name == 'Mux2' and cfg.get('ws', 1) > 1:
            feats.append('selw>1')
        if name == 'Reg' and (cfg.get('rv') or 0) != 0:
            feats.append('rv!=0')
        return fail('block|{}|{}|{}'.format(name, ','.join(feats) or cc, r[1]), '{} cfg={}: {}'.format(name, cfg, r[3]), cls=tags)
    return r


def run_two(case):
    """two instances of one library class with (possibly) different constructor arguments under one top: whatever module
    names they are emitted under, each instance must keep its own behaviour"""
    name = case['block']
    tags = ['two_instances:' + name]
    io = [block_io(name, c) for c in case['cfgs']]
    inw = io[0][0] + io[1][0]
    outw = io[0][1] + io[1][1]
    n0i, n0o = len(io[0][0]), len(io[0][1])
    order = case.get('order', 0)

    class _Sub:
        pass

    def builder(t, i, o):
        made = [None, None]
        for which in ([0, 1] if order == 0 else [1, 0]):
            ii = i[:n0i] if which == 0 else i[n0i:]
            oo = o[:n0o] if which == 0 else o[n0o:]
            # every instance gets its own name: the catalogue builders call theirs 'dut'
            holder = netgen.Wrapper(t, 'inst%d' % which)
            for k, w in enumerate(ii):
                holder.addIn('i%d' % k, w)
            for k, w in enumerate(oo):
                holder.addOut('o%d' % k, w)
            made[which] = io[which][2](holder, ii, oo)
        return made
    try:
        sysm, top, ins, outs, blk = rtl.wrap(inw, outw, builder)
    except HarnessError:
        raise
    except Exception:
        return discard('rejected_by_constructor', tags)
    seq = [[v & mask(w) for v, w in zip(vec, inw)] for vec in case['inputs']]
    if name == 'DualPortSynchronousMemory':
        return discard('not_applicable', tags)
    r = compare_run(sysm, top, ins, outs, seq, tags)
    if isinstance(r, tuple):
        same = case['cfgs'][0] == case['cfgs'][1]
        return fail('two_instances|{}|{}|{}'.format(name, 'same_cfg' if same else 'different_cfg', r[1]),
                    '{} cfgs={}: {}'.format(name, case['cfgs'], r[3]), cls=tags)
    return r


def two_cases(max_len):
    names = [n for n in sorted(list(ARITH) + list(LOGIC)) if not n.startswith('hlp.')]

    def for_block(n):
        cat = ARITH if n in ARITH else LOGIC
        e = cat[n]

        def seqs(cfgs):
            inw = e.inw(cfgs[0]) + e.inw(cfgs[1])
            return st.lists(st.tuples(*[value_st(w) for w in inw]).map(list), min_size=3, max_size=3).map(
                lambda s_: {'kind': 'two', 'block': n, 'cfgs': list(cfgs), 'inputs': s_})
        return st.tuples(e.strat, e.strat).flatmap(seqs)

    def for_seq(n):
        def hist(cfgs):
            h0 = c09.history(n, cfgs[0], max_len)
            h1 = c09.history(n, cfgs[1], max_len)
            return st.tuples(h0, h1).map(lambda hh: {'kind': 'two', 'block': n, 'cfgs': list(cfgs),
                                                     'inputs': [a + b for a, b in zip(hh[0], hh[1])]})
        return st.tuples(c09.cfgs(n), c09.cfgs(n)).flatmap(hist)
    base = st.one_of(st.sampled_from(names).flatmap(for_block), st.sampled_from(sorted(c09.BLOCKS)).flatmap(for_seq))
    return st.tuples(base, st.integers(0, 1)).map(lambda t: dict(t[0], order=t[1]))


def one_block_cases(n, max_len):
    def seq_for(inw, k):
        return st.lists(st.tuples(*[value_st(w) for w in inw]).map(list), min_size=k, max_size=k) if inw else st.just([[]] * k)
    if n in c09.BLOCKS:
        return c09.cfgs(n).flatmap(lambda c: c09.history(n, c, max_len).map(
            lambda h: {'kind': 'block', 'block': n, 'cfg': c, 'inputs': h}))
    cat = ARITH if n in ARITH else LOGIC
    return cat[n].strat.flatmap(lambda c: seq_for(cat[n].inw(c), 4).map(
        lambda s: {'kind': 'block', 'block': n, 'cfg': c, 'inputs': s}))


def _per_block_task(task):
    from ..runner import hyp_task
    return hyp_task(one_block_cases(task['block'], task['max_len']), run_case, task['n'], 'C01:' + task['block'])


def _small_cfg_task(task):
    """every configuration of a catalogue block with all widths <= W (flags and optional ports in every combination),
    three edge input vectors each"""
    cat = ARITH if task['block'] in ARITH else LOGIC
    e = cat[task['block']]
    evals = nt = 0
    fails = {}
    discards = {}
    for cfg in task['cfgs']:
        try:
            inw = e.inw(cfg)
        except Exception:
            continue
        vecs = [[mask(w) for w in inw], [1 for w in inw], [(mask(w) >> 1) ^ (k & 1) for k, w in enumerate(inw)]]
        case = {'kind': 'block', 'block': task['block'], 'cfg': cfg, 'inputs': vecs}
        r = run_block(case)
        if r['discard']:
            discards[r['discard']] = discards.get(r['discard'], 0) + 1
            continue
        evals += 1
        nt += 1 if r['nt'] else 0
        if r['fail']:
            sg = r['fail']['sig']
            if sg not in fails:
                fails[sg] = {'sig': sg, 'msg': r['fail']['msg'], 'count': 1, 'case': case}
            else:
                fails[sg]['count'] += 1
    return {'evals': evals, 'nt': nt, 'cls': {'small_cfgs:' + task['block']: evals}, 'discards': discards, 'fails': list(fails.values()), 'samples': []}


def _small_cfg_tasks(W):
    tasks = []
    for cat in (ARITH, LOGIC):
        for n in sorted(cat):
            if n.startswith('hlp.'):
                continue
            cfgs = list(cat[n].small(W))
            for i in range(0, len(cfgs), 80):
                tasks.append({'block': n, 'cfgs': cfgs[i:i + 80]})
    return tasks


def all_block_names():
    return [n for n in sorted(list(ARITH) + list(LOGIC)) if not n.startswith('hlp.')] + sorted(c09.BLOCKS)


def block_cases(max_len):
    names = [n for n in sorted(list(ARITH) + list(LOGIC)) if not n.startswith('hlp.')]

    def seq_for(inw, n):
        return st.lists(st.tuples(*[value_st(w) for w in inw]).map(list), min_size=n, max_size=n) if inw else st.just([[]] * n)

    def for_block(n):
        cat = ARITH if n in ARITH else LOGIC
        return cat[n].strat.flatmap(lambda c: seq_for(cat[n].inw(c), 3).map(
            lambda s: {'kind': 'block', 'block': n, 'cfg': c, 'inputs': s}))

    def for_seq(n):
        return c09.cfgs(n).flatmap(lambda c: c09.history(n, c, max_len).map(
            lambda h: {'kind': 'block', 'block': n, 'cfg': c, 'inputs': h}))
    return st.one_of(st.sampled_from(names).flatmap(for_block), st.sampled_from(sorted(c09.BLOCKS)).flatmap(for_seq))


# ---- netlists --------------------------------------------------------------------------------------------------------
def run_netlist(case):
    desc = case['desc']
    tags = ['netlist'] + (['excluded_known:c01-aliased-ports'] if case.get('excluded_known') else [])
    try:
        b = build(desc)
    except Exception as e:
        raise HarnessError('builder failed: {!r}'.format(e))
    top = b.group_obj.get(0)
    if top is None:
        return discard('empty_top', tags)
    # top-level ports in the order py4hw lists them
    ins = [p.wire for p in top.inPorts]
    outs = [p.wire for p in top.outPorts]
    sig_of = {id(w): s_ for s_, w in b.wire.items()}
    in_ids = [sig_of[id(w)] for w in ins]
    seq = []
    for vec in case['inputs']:
        d = {'i%d' % k: v & mask(desc['inputs'][k]['w']) for k, v in enumerate(vec)}
        seq.append([d[i] for i in in_ids])

    def localize(vs, cyc, held):
        # first node (in evaluation order) whose net differs between the two simulations
        order = netgen.comb_order(desc)
        regs = [k for k, nd in enumerate(desc['nodes']) if is_state(nd)]
        found = {}

        def walk(sc):
            for nm, s in sc.sigs.items():
                base = nm[2:] if nm.startswith('w_') else nm
                if re.match(r'^[in]\d+$', base) and base not in found:
                    found[base] = s.value
            for ch in sc.children.values():
                walk(ch)
        walk(vs.top)
        for k in regs + order:
            s = 'n%d' % k
            if s in found and s in held and found[s] != held[s]:
                nd = desc['nodes'][k]
                feat = nd['op']
                if nd['op'] == 'Reg':
                    feat += ''.join(['E' if nd['p'].get('en') else '', 'R' if nd['p'].get('rst') else ''])
                return feat
        return '?'
    r = compare_run(b.sys, top, ins, outs, seq, tags, localize=localize, capture=lambda: {s: w.get() for s, w in b.wire.items()})
    if isinstance(r, tuple):
        feat = '|aliased_ports_shared_module' if aliased_shared(desc) else ''
        return fail('netlist|{}|{}{}'.format(r[2], r[1], feat), r[3], cls=tags)
    return r


def aliased_shared(desc):
    """known finding c01-aliased-ports: a block emitted under a shared module name (Add) whose two input ports
    are attached to the same wire"""
    return any(nd['op'] == 'Add' and nd['args'][0] == nd['args'][1] for nd in desc['nodes'])


@st.composite
def netlist_cases(draw, max_nodes, n_cycles):
    desc = c03.under_top(draw(netlists(max_nodes=max_nodes, n_regs=(0, 5), n_mems=(0, 1), hierarchy=3, max_w=64, div=True, reg_values=True, reg_d_any=True, ops=netgen.COMB_OPS_BASIC + ['BitSel'],
                                       widths=[1, 2, 4, 4, 8, 8, 9, 16, 33, 64])))
    # twin blocks that are emitted under closely related shared module names: the same register with the opposite
    # / another reset value, so that a wrong sharing of module bodies shows at power-up or on reset
    regs = [k for k, nd in enumerate(desc['nodes']) if nd['op'] == 'Reg']
    if regs and draw(st.integers(0, 2)) == 0:
        k = draw(st.sampled_from(regs))
        nd = desc['nodes'][k]
        rv = nd['p'].get('rv') or draw(st.sampled_from([1, 2, 3, 5]))
        nd['p']['rv'] = rv
        twin = {'op': 'Reg', 'args': list(nd['args']), 'w': nd['w'], 'g': nd['g'],
                'p': dict(nd['p'], rv=draw(st.sampled_from([-rv, -rv, rv + 1, 0])))}
        desc['nodes'].append(twin)
        desc['order'].append(len(desc['nodes']) - 1)
        desc['outputs'] = sorted(set(desc['outputs'] + ['n%d' % k, 'n%d' % (len(desc['nodes']) - 1)]))
    # a tap on one bit of a register through a multi-output leaf (BitsLSBF, the other outputs dangle) whose reader is
    # instantiated before the leaf: the simulator has to reorder them, Verilog continuous assignments need no order
    wide = [k for k in regs if desc['nodes'][k]['w'] >= 2]
    if wide and draw(st.integers(0, 2)) == 0:
        k = draw(st.sampled_from(wide))
        g = desc['nodes'][k]['g']
        n0 = len(desc['nodes'])
        desc['nodes'].append({'op': 'BitSel', 'args': ['n%d' % k], 'w': 1, 'g': g, 'p': {'bit': draw(st.integers(0, desc['nodes'][k]['w'] - 1))}})
        desc['nodes'].append({'op': 'Not', 'args': ['n%d' % n0], 'w': 1, 'g': g, 'p': {}})
        desc['order'] = [n0 + 1] + desc['order'] + [n0]
        desc['outputs'] = sorted(set(desc['outputs'] + ['n%d' % (n0 + 1)]))
    # two registers of one shape (one shared module): the control of one is tied to a Constant (enable 1 / reset 0, as in
    # ClockDivider or hw_delay), the control of the other is live
    one_bit = ['i%d' % j for j, i in enumerate(desc['inputs']) if i['w'] == 1] + ['n%d' % j for j, nd in enumerate(desc['nodes']) if nd['w'] == 1]
    if one_bit and draw(st.integers(0, 3)) == 0:
        src = draw(st.sampled_from(['i%d' % j for j in range(len(desc['inputs']))] + ['n%d' % j for j in range(len(desc['nodes']))]))
        w = netgen.sig_w(desc, src)
        kind = draw(st.sampled_from(['en', 'rst']))
        n0 = len(desc['nodes'])
        p = {'en': kind == 'en', 'rst': kind == 'rst'}
        g1, g2 = [draw(st.integers(0, len(desc['groups']) - 1)) for _ in range(2)]
        desc['nodes'].append({'op': 'Constant', 'args': [], 'w': 1, 'p': {'v': 1 if kind == 'en' else 0}, 'g': g1})
        desc['nodes'].append({'op': 'Reg', 'args': [src, 'n%d' % n0], 'w': w, 'p': dict(p), 'g': g1})
        desc['nodes'].append({'op': 'Reg', 'args': [src, draw(st.sampled_from(one_bit))], 'w': w, 'p': dict(p), 'g': g2})
        for j in draw(st.permutations([n0, n0 + 1, n0 + 2])):
            desc['order'].insert(draw(st.integers(0, len(desc['order']))), j)
        desc['outputs'] = sorted(set(desc['outputs'] + ['n%d' % (n0 + 1), 'n%d' % (n0 + 2)]))
    excluded = 0
    for nd in desc['nodes']:
        if nd['op'] == 'Add' and nd['args'][0] == nd['args'][1]:
            nd['op'] = 'Sub'          # known finding c01-aliased-ports excluded by construction (counted)
            excluded += 1
    if draw(st.integers(0, 2)) == 0:
        desc['scoped_wire_names'] = True      # every block numbers its wires from 0: inner and outer wires share names
    n = draw(st.integers(1, n_cycles))
    seq = [[draw(value_st(i['w'])) for i in desc['inputs']] for _ in range(n)]
    return {'kind': 'netlist', 'desc': desc, 'inputs': seq, 'excluded_known': excluded}


# ---- corpus: hand-written bodies and emulation blocks ---------------------------------------------------------------
def corpus_io(name, p):
    from . import c16
    from py4hw.logic.protocol.uart.sequencer import MsgSequencer
    if name == 'MsgSequencer':
        return [1], [1, 8], lambda t, i, o: MsgSequencer(t, 'dut', i[0], o[0], o[1], p['msg'])
    if name == 'AsynchronousMemory':
        return [p['aw'], p['aw'], 1, p['w']], [p['w']], lambda t, i, o: py4hw.AsynchronousMemory(t, 'dut', i[0], i[1], i[2], o[0], i[3])
    if name in ('Axi2Reg', 'Reg2Axi'):
        M, bld = c16.TABLE[name]
        m = M(p)
        return m.ports(), m.outs(), lambda t, i, o: bld(t, i, o, p)
    if name == 'MsgSequencerPair':
        # two sequencers in one design (messages of equal or different length)
        def b2(t, i, o):
            MsgSequencer(t, 'seq_a', i[0], o[0], o[1], p['msg'][0])
            MsgSequencer(t, 'seq_b', i[1], o[2], o[3], p['msg'][1])
        return [1, 1], [1, 8, 1, 8], b2
    if name == 'FPCompare':
        # a plain and an absolute-mode comparator (and, optionally, an adder, which holds an absolute comparator) on the
        # same operands, instantiated in either order
        def b3(t, i, o):
            def plain():
                py4hw.FPComparator_SP(t, 'cmp_plain', i[0], i[1], o[0], o[1], o[2])

            def absolute():
                py4hw.FPComparator_SP(t, 'cmp_abs', i[0], i[1], o[3], o[4], o[5], absolute=True)

            def adder():
                py4hw.FPAdder_SP(t, 'adder', i[0], i[1], o[6])
            parts = [plain, absolute] + ([adder] if p.get('adder') else [])
            for k in p['order']:
                if k < len(parts):
                    parts[k]()
            if not p.get('adder'):
                py4hw.Constant(t, 'zero', 0, o[6])
        return [32, 32], [1, 1, 1, 1, 1, 1, 32], b3
    if name == 'FPBlock':
        which = p['which']
        if which == 'FPtoInt_SP':
            return [32], [32, 1, 1, 1], lambda t, i, o: py4hw.FPtoInt_SP(t, 'dut', i[0], o[0], o[1], o[2], o[3])
        if which == 'InttoFP_SP':
            return [32], [32, 1], lambda t, i, o: py4hw.InttoFP_SP(t, 'dut', i[0], o[0], o[1])
        if which == 'FPMult_SP':
            return [32, 32], [32], lambda t, i, o: py4hw.FPMult_SP(t, 'dut', i[0], i[1], o[0])
        return [32, 32], [32], lambda t, i, o: py4hw.FPAdder_SP(t, 'dut', i[0], i[1], o[0])
    raise HarnessError(name)


def run_corpus(case):
    name, p = case['name'], case['p']
    tags = ['corpus:' + name]
    inw, outw, builder = corpus_io(name, p)
    sysm, top, ins, outs, blk = rtl.wrap(inw, outw, builder)
    seq = [[v & mask(w) for v, w in zip(vec, inw)] for vec in case['inputs']]
    r = compare_run(sysm, top, ins, outs, seq, tags)
    if isinstance(r, tuple):
        return fail('corpus|{}|{}'.format(name, r[1]), '{} {}: {}'.format(name, p, r[3]), cls=tags)
    return r


# message characters: letters, digits and the characters that are special inside Verilog string literals and formats
MSG_ALPHABET = 'AbZ09!x "\\%\n\t~{}'


def corpus_cases(max_len):
    from . import c16
    bit = st.sampled_from([0, 1, 1])
    msg = st.tuples(st.text(alphabet=MSG_ALPHABET, min_size=1, max_size=5), st.lists(bit.map(lambda b: [b]), min_size=2, max_size=max_len)).map(
        lambda t: {'kind': 'corpus', 'name': 'MsgSequencer', 'p': {'msg': t[0]}, 'inputs': t[1]})
    amem = st.tuples(st.integers(1, 3), st.integers(1, 8)).flatmap(lambda t: st.lists(
        st.tuples(value_st(t[0]), value_st(t[0]), st.integers(0, 1), value_st(t[1])).map(list), min_size=1, max_size=max_len).map(
        lambda h: {'kind': 'corpus', 'name': 'AsynchronousMemory', 'p': {'aw': t[0], 'w': t[1]}, 'inputs': h}))
    axi = st.sampled_from(['Axi2Reg', 'Reg2Axi']).flatmap(lambda b: c16._cfg(b).flatmap(
        lambda c: c16._hist(b, c, max_len).map(lambda h: {'kind': 'corpus', 'name': b, 'p': c, 'inputs': h})))
    msg2 = st.tuples(st.text(alphabet=MSG_ALPHABET, min_size=1, max_size=4), st.text(alphabet=MSG_ALPHABET, min_size=1, max_size=4),
                     st.lists(st.tuples(bit, bit).map(list), min_size=2, max_size=max_len), st.booleans()).map(
        lambda t: {'kind': 'corpus', 'name': 'MsgSequencerPair',
                   'p': {'msg': [t[0], (t[1] + t[0])[:len(t[0])] if t[3] else t[1]]}, 'inputs': t[2]})
    from .c13 import pair_strategy
    fpc = st.tuples(st.lists(pair_strategy(40).map(list), min_size=1, max_size=4), st.permutations([0, 1, 2]), st.booleans()).map(
        lambda t: {'kind': 'corpus', 'name': 'FPCompare', 'p': {'order': list(t[1]), 'adder': t[2]}, 'inputs': t[0]})
    from .c13 import _ints, _floats_for_int
    fpb = st.one_of(
        st.lists(_floats_for_int().map(lambda c: [c['a']]), min_size=1, max_size=4).map(
            lambda h: {'kind': 'corpus', 'name': 'FPBlock', 'p': {'which': 'FPtoInt_SP'}, 'inputs': h}),
        st.lists(_ints().map(lambda c: [c['a']]), min_size=1, max_size=4).map(
            lambda h: {'kind': 'corpus', 'name': 'FPBlock', 'p': {'which': 'InttoFP_SP'}, 'inputs': h}),
        st.tuples(st.sampled_from(['FPMult_SP', 'FPAdder_SP']), st.lists(pair_strategy(40).map(list), min_size=1, max_size=4)).map(
            lambda t: {'kind': 'corpus', 'name': 'FPBlock', 'p': {'which': t[0]}, 'inputs': t[1]}))
    return st.one_of(msg, amem, axi, axi, msg2, fpc, fpb)


def run_case(case):
    if case['kind'] == 'block':
        return run_block(case)
    if case['kind'] == 'corpus':
        return run_corpus(case)
    if case['kind'] == 'two':
        return run_two(case)
    return run_netlist(case)


def shrink_candidates(case):
    s = case['inputs']
    for i in range(len(s) - 1, -1, -1):
        if len(s) > 1:
            yield dict(case, inputs=s[:i] + s[i + 1:])
    for i, v in enumerate(s):
        for j, x in enumerate(v):
            if x:
                nv = list(v)
                nv[j] = 0
                yield dict(case, inputs=s[:i] + [nv] + s[i + 1:])


def strata(tier):
    q = tier == 'quick'
    return [
        {'name': 'every_block', 'kind': 'enum', 'exhaustive': False, 'run_task': _per_block_task,
         'tasks': [{'block': n, 'n': 14 if q else 300, 'max_len': 20 if q else 60} for n in all_block_names()]},
        {'name': 'every_small_configuration', 'kind': 'enum', 'exhaustive': False, 'run_task': _small_cfg_task,
         'tasks': _small_cfg_tasks(3 if q else 4)},
        {'name': 'bodies_and_emulation_blocks', 'kind': 'hyp', 'examples': 300 if q else 6000,
         'strategy': lambda: corpus_cases(20 if q else 60), 'run_case': run_case},
        {'name': 'two_instances_of_one_class', 'kind': 'hyp', 'examples': 400 if q else 8000,
         'strategy': lambda: two_cases(12 if q else 30), 'run_case': run_case},
        {'name': 'netlists', 'kind': 'hyp', 'examples': 400 if q else 8000,
         'strategy': lambda: netlist_cases(25 if q else 80, 20 if q else 60), 'run_case': run_case},
    ]

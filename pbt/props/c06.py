"""C06 - wire values always fit their declared width."""
import py4hw
from hypothesis import strategies as st

from .. import netgen
from ..netgen import netlists, build, is_state
from ..bench import Bench, mask, all_wires
from ..runner import ok, fail, discard, HarnessError, exception_signature
from ..cat_arith import E as ARITH, value_st
from ..cat_logic import L as LOGIC

PROP = 'C06'
RULE = ('stratum netlists: case = (netlist of library primitives including constants and Sequence stimulus with negative '
        'and oversized values, input vectors incl. oversized pokes); every wire reachable from the HWSystem is checked '
        'after simulator creation, after every clk, inside a simulatorUpdated listener and inside Waveform data. Stratum '
        'leaves_with_independent_port_widths: library leaves whose constructors do not relate their port widths (3-bit carry-in, write '
        'port wider than the read port, register narrower than its input ...), every port width drawn independently. Stratum '
        'leaf_preparing_a_wire_twice: a user-style clocked leaf that prepares its outputs twice per edge with unreduced values. Stratum '
        'blocks: case = (catalogue block, configuration, extreme operand vector). Non-trivial iff the independent '
        'reference reports at least one node whose unreduced result was out of range (negative difference, complement, '
        'overflow, oversized constant or stimulus), i.e. the mask did work. Distinct by JSON hash.')
ASSUMPTIONS = [
    'a value is in range iff isinstance(v, int) and 0 <= v < 2**width (bool results count as int, as in Python)',
    'wires are enumerated recursively through Logic._wires plus every port wire',
]


def bad_wires(sysm):
    out = []
    for w in all_wires(sysm).values():
        v = w.get()
        if not isinstance(v, int) or v < 0 or v >= (1 << w.getWidth()):
            out.append('{} (width {}) = {!r}'.format(w.getFullPath(), w.getWidth(), v))
    return out


class Listener:
    def __init__(self, sysm):
        self.sysm = sysm
        self.bad = []
        self.calls = 0

    def simulatorUpdated(self):
        self.calls += 1
        if not self.bad:
            self.bad = bad_wires(self.sysm)


def leaf_of(path):
    # signature: class of the leaf owning the first offending wire
    return path.split('/')[-1].split('[')[0] if '/' in path else path


def run_netlist(case):
    desc = case['desc']
    b = build(desc)
    sysm = b.sys
    seqw = []
    for k, sq in enumerate(case.get('seqs', [])):
        w = sysm.wire('stim%d' % k, sq['w'])
        py4hw.Sequence(sysm, 'stimseq%d' % k, list(sq['values']), w)
        seqw.append(w)
    watch = list(b.outputs) + seqw
    wf = py4hw.Waveform(sysm, 'wf', watch)
    for w, v in zip(b.inputs, case['inputs'][0]):
        w.put(v)
    sim = sysm.getSimulator()
    lst = Listener(sysm)
    sim.addListener(lst)
    raw = []
    seq_in = [[x & mask(i['w']) for x, i in zip(vec, desc['inputs'])] for vec in case['inputs']]
    try:
        netgen.ref_trace(desc, seq_in, raw_out=raw)
    except Exception as e:
        raise HarnessError('reference failed: {!r}'.format(e))
    nt = bool(raw) or any((nd['p'].get('rv') or 0) != ((nd['p'].get('rv') or 0) & mask(nd['w'])) for nd in desc['nodes'] if nd['op'] == 'Reg') or any(v < 0 or v > mask(sq['w']) for sq in case.get('seqs', []) for v in sq['values']) or any(
        x != (x & mask(i['w'])) for vec in case['inputs'] for x, i in zip(vec, desc['inputs']))
    tags = []
    bad = bad_wires(sysm)
    if bad:
        return fail('out_of_range|creation|' + leaf_of(bad[0]), 'after simulator creation: ' + '; '.join(bad[:3]), cls=tags)
    for t, vec in enumerate(case['inputs']):
        for w, v in zip(b.inputs, vec):
            w.put(v)
        bad = bad_wires(sysm)
        if bad:
            return fail('out_of_range|put', 'after Wire.put: ' + '; '.join(bad[:3]), cls=tags)
        sim.clk(1)
        bad = bad_wires(sysm)
        if bad:
            return fail('out_of_range|clk|' + leaf_of(bad[0]), 'after clk #{}: '.format(t + 1) + '; '.join(bad[:3]), cls=tags)
        if lst.bad:
            return fail('out_of_range|listener', 'inside simulatorUpdated: ' + '; '.join(lst.bad[:3]), cls=tags)
    for w, data in wf.getDict().items():
        for v in data:
            if not isinstance(v, int) or v < 0 or v >= (1 << w.getWidth()):
                return fail('out_of_range|waveform', 'Waveform recorded {!r} for {} (width {})'.format(v, w.getFullPath(), w.getWidth()), cls=tags)
    if lst.calls != len(case['inputs']):
        raise HarnessError('listener not called once per cycle')
    return ok(nt, tags + ['netlist'])


def run_block(case):
    cat = ARITH if case['block'] in ARITH else LOGIC
    entry = cat[case['block']]
    cfg = case['cfg']
    try:
        b = Bench(entry.inw(cfg), entry.outw(cfg), lambda s, i, o: entry.build(s, i, o, cfg))
    except Exception:
        return discard('rejected_by_constructor')
    inw = entry.inw(cfg)
    ins = [v & mask(w) for v, w in zip(case['in'], inw)]
    raw = entry.ref(cfg, ins)
    if raw is None and case['block'] in ('Div', 'Mod', 'SignedDiv', 'hlp.hw_div', 'hlp.hw_mod', 'hlp.hw_signed_div', 'BinaryToBCD'):
        pass        # the nondeterministic zero-divisor branch must stay in range too
    try:
        b.eval(ins)
    except Exception as e:
        return discard('block_raises')        # judged by C07/C08, not here
    bad = bad_wires(b.sys)
    if bad:
        return fail('out_of_range|block|' + case['block'], '{} cfg={} in={}: '.format(case['block'], cfg, ins) + '; '.join(bad[:3]))
    nt = raw is None or any(r != (r & mask(w.getWidth())) for r, w in zip(raw, b.outs))
    return ok(nt, [case['block']])


def run_bidir(case):
    """bidirectional wires: direct put / prepare and a BidirBuf whose pout is wider than the pad"""
    sysm = py4hw.HWSystem()
    wb, wp = case['wb'], case['wp']
    pad = sysm.bidir_wire('pad', wb)
    pin = sysm.wire('pin', wb)
    pout = sysm.wire('pout', wp)
    poe = sysm.wire('poe')
    py4hw.BidirBuf(sysm, 'buf', pin, pout, poe, pad)
    sim = sysm.getSimulator()
    nt = False
    for kind, v in case['ops']:
        if kind == 'put':
            pad.put(v)
        elif kind == 'prepare':
            pad.prepare(v)
            py4hw.Wire.settleAll()
        elif kind == 'drive':
            pout.put(v)
            poe.put(1)
            sim.clk(1)
        else:
            poe.put(0)
            sim.clk(1)
        if v < 0 or v > mask(wb):
            nt = True
        bad = bad_wires(sysm)
        if bad:
            return fail('out_of_range|bidir|' + kind, 'after {}({}): '.format(kind, v) + '; '.join(bad[:3]))
    return ok(nt, ['bidir'])


class DefaultThenOverride(py4hw.Logic):
    """user-written clocked leaf in the 'default assignment, then override' style: the output wire is prepared twice in
    one edge (py4hw warns and the last value wins); the overriding value is an unreduced difference / product"""

    def __init__(self, parent, name, a, b, en, r, p, mode):
        super().__init__(parent, name)
        self.a = self.addIn('a', a)
        self.b = self.addIn('b', b)
        self.en = self.addIn('en', en)
        self.r = self.addOut('r', r)
        self.p = self.addOut('p', p)
        self.mode = mode

    def clock(self):
        self.r.prepare(0)
        self.p.prepare(self.a.get() * self.b.get())
        if self.en.get():
            if self.mode == 'diff':
                self.r.prepare(self.a.get() - self.b.get())
            elif self.mode == 'neg':
                self.r.prepare(-self.a.get() - 1)
            else:
                self.r.prepare((self.a.get() << 3) + self.b.get())
            if self.mode != 'diff':
                self.p.prepare(self.b.get() - self.a.get() * 3)


def run_behav(case):
    import io
    import contextlib
    sysm = py4hw.HWSystem()
    wa, wr = case['wa'], case['wr']
    a, b_, en = sysm.wire('a', wa), sysm.wire('b', wa), sysm.wire('en')
    r, p = sysm.wire('r', wr), sysm.wire('p', wr)
    DefaultThenOverride(sysm, 'dut', a, b_, en, r, p, case['mode'])
    q = sysm.wire('q', wr)
    py4hw.Reg(sysm, 'follow', r, q)
    wf = py4hw.Waveform(sysm, 'wf', [r, p, q])
    sim = sysm.getSimulator()
    lst = Listener(sysm)
    sim.addListener(lst)
    nt = False
    for t, (va, vb, ve) in enumerate(case['steps']):
        a.put(va)
        b_.put(vb)
        en.put(ve)
        with contextlib.redirect_stdout(io.StringIO()):
            sim.clk(1)
        if ve:
            nt = True
        bad = bad_wires(sysm) or lst.bad
        if bad:
            return fail('out_of_range|prepared_twice', 'after clk #{} (a={} b={} en={}): '.format(t + 1, va, vb, ve) + '; '.join(bad[:3]), cls=['behavioural_leaf'])
    for w, data in wf.getDict().items():
        for v in data:
            if not isinstance(v, int) or v < 0 or v >= (1 << w.getWidth()):
                return fail('out_of_range|waveform', 'Waveform recorded {!r} for {} (width {})'.format(v, w.getFullPath(), w.getWidth()), cls=['behavioural_leaf'])
    return ok(nt, ['behavioural_leaf'])


def behav_cases():
    def steps(wa):
        return st.lists(st.tuples(st.integers(0, mask(wa)), st.integers(0, mask(wa)), st.integers(0, 1)).map(list), min_size=1, max_size=8)
    return st.sampled_from([1, 4, 8, 12]).flatmap(lambda wa: st.fixed_dictionaries({
        'kind': st.just('behav'), 'wa': st.just(wa), 'wr': st.sampled_from([1, 3, 4, 8]), 'mode': st.sampled_from(['diff', 'neg', 'wide']), 'steps': steps(wa)}))


# ---- library leaves with every port width chosen independently ------------------------------------------------------------
# (name -> (number of inputs, number of outputs, constructor, clocked)); nothing constrains the widths of these ports in the
# constructors, so e.g. a 3-bit carry-in, a write port wider than the read port or a register narrower than its input are
# legal instances; only the range invariant is judged here
FREE = {
    'AddCarryIn': (3, 1, lambda s, i, o: py4hw.AddCarryIn(s, 'dut', i[0], i[1], o[0], i[2]), False),
    'Add': (2, 1, lambda s, i, o: py4hw.Add(s, 'dut', i[0], i[1], o[0]), False),
    'Sub': (2, 1, lambda s, i, o: py4hw.Sub(s, 'dut', i[0], i[1], o[0]), False),
    'Mul': (2, 1, lambda s, i, o: py4hw.Mul(s, 'dut', i[0], i[1], o[0]), False),
    'And2': (2, 1, lambda s, i, o: py4hw.And2(s, 'dut', i[0], i[1], o[0]), False),
    'Or2': (2, 1, lambda s, i, o: py4hw.Or2(s, 'dut', i[0], i[1], o[0]), False),
    'Xor2': (2, 1, lambda s, i, o: py4hw.Xor2(s, 'dut', i[0], i[1], o[0]), False),
    'Not': (1, 1, lambda s, i, o: py4hw.Not(s, 'dut', i[0], o[0]), False),
    'Buf': (1, 1, lambda s, i, o: py4hw.Buf(s, 'dut', i[0], o[0]), False),
    'Neg': (1, 1, lambda s, i, o: py4hw.Neg(s, 'dut', i[0], o[0]), False),
    'Mux2': (3, 1, lambda s, i, o: py4hw.Mux2(s, 'dut', i[0], i[1], i[2], o[0]), False),
    'Equal': (2, 1, lambda s, i, o: py4hw.Equal(s, 'dut', i[0], i[1], o[0]), False),
    'ShiftLeft': (2, 1, lambda s, i, o: py4hw.ShiftLeft(s, 'dut', i[0], i[1], o[0]), False),
    'SignExtend': (1, 1, lambda s, i, o: py4hw.SignExtend(s, 'dut', i[0], o[0]), False),
    'ZeroExtend': (1, 1, lambda s, i, o: py4hw.ZeroExtend(s, 'dut', i[0], o[0]), False),
    'ConcatenateLSBF': (3, 1, lambda s, i, o: py4hw.ConcatenateLSBF(s, 'dut', list(i), o[0]), False),
    'ConcatenateMSBF': (3, 1, lambda s, i, o: py4hw.ConcatenateMSBF(s, 'dut', list(i), o[0]), False),
    'AsynchronousMemory': (4, 1, lambda s, i, o: py4hw.AsynchronousMemory(s, 'dut', i[0], i[1], i[2], o[0], i[3]), False),
    'SynchronousMemory': (4, 1, lambda s, i, o: py4hw.SynchronousMemory(s, 'dut', i[0], i[1], i[2], o[0], i[3]), True),
    'Reg': (1, 1, lambda s, i, o: py4hw.Reg(s, 'dut', i[0], o[0]), True),
    'RegER': (3, 1, lambda s, i, o: py4hw.Reg(s, 'dut', i[0], o[0], enable=i[1], reset=i[2]), True),
    'Counter': (2, 1, lambda s, i, o: py4hw.Counter(s, 'dut', i[0], i[1], o[0]), True),
    'DelayLine': (3, 1, lambda s, i, o: py4hw.DelayLine(s, 'dut', i[0], i[1], i[2], o[0], 2), True),
}


def run_free(case):
    name = case['block']
    nin, nout, ctor, clocked = FREE[name]
    tags = ['free_widths:' + name]
    try:
        b = Bench(case['inw'], case['outw'], ctor)
        b.simulator()
    except HarnessError:
        raise
    except Exception:
        return discard('rejected_by_constructor', tags)
    nt = False
    for t, vec in enumerate(case['steps']):
        ins = [v & mask(w) for v, w in zip(vec, case['inw'])]
        try:
            b.poke(ins)
            if clocked:
                b.clk(1)
            else:
                b.settle()
        except Exception:
            return discard('block_raises', tags)          # e.g. an address beyond a memory built from another port's width
        bad = bad_wires(b.sys)
        if bad:
            return fail('out_of_range|free_widths|' + name, '{} port widths in {} out {} step {} inputs {}: '.format(
                name, case['inw'], case['outw'], t, ins) + '; '.join(bad[:3]), cls=tags)
        if any(wi > wo for wi in case['inw'] for wo in case['outw']):
            nt = True
    return ok(nt, tags)


def free_cases():
    def for_block(n):
        nin, nout, ctor, clocked = FREE[n]
        wst = st.sampled_from([1, 1, 2, 3, 4, 5, 8, 12])
        return st.tuples(st.lists(wst, min_size=nin, max_size=nin), st.lists(wst, min_size=nout, max_size=nout)).flatmap(
            lambda t: st.lists(st.tuples(*[st.one_of(st.just(mask(w)), st.sampled_from([0, 1, mask(w), mask(w) - 1 if w > 1 else 0]), st.integers(0, mask(w))) for w in t[0]]).map(list),
                               min_size=1, max_size=6).map(
                lambda steps: {'kind': 'free', 'block': n, 'inw': t[0], 'outw': t[1], 'steps': steps}))
    return st.sampled_from(sorted(FREE)).flatmap(for_block)


def run_case(case):
    if case.get('kind') == 'free':
        return run_free(case)
    if case.get('kind') == 'behav':
        return run_behav(case)
    if 'desc' in case:
        return run_netlist(case)
    if case.get('kind') == 'bidir':
        return run_bidir(case)
    return run_block(case)


def bidir_cases():
    v = st.one_of(st.integers(-300, 5000), st.integers(0, 3))
    return st.fixed_dictionaries({'kind': st.just('bidir'), 'wb': st.sampled_from([1, 4, 8]), 'wp': st.sampled_from([1, 8, 12, 16]),
                                  'ops': st.lists(st.tuples(st.sampled_from(['put', 'prepare', 'drive', 'release']), v).map(list),
                                                  min_size=1, max_size=8)})


@st.composite
def netlist_cases(draw, max_nodes, n_cycles):
    desc = draw(netlists(max_nodes=max_nodes, n_regs=(0, 3), hierarchy=1, div=True, reg_values=True, reg_d_any=True))
    # negative and oversized reset values
    for nd in desc['nodes']:
        if nd['op'] == 'Reg' and draw(st.booleans()):
            nd['p']['rv'] = draw(st.one_of(st.integers(-300, -1), st.integers(mask(nd['w']) + 1, (mask(nd['w']) + 1) * 4 + 9)))
    # out-of-range constants
    for nd in desc['nodes']:
        if nd['op'] == 'Constant' and draw(st.booleans()):
            nd['p']['v'] = draw(st.one_of(st.integers(-300, -1), st.integers(mask(nd['w']) + 1, (mask(nd['w']) + 1) * 4 + 7)))
    n = draw(st.integers(1, n_cycles))
    seq = []
    for _ in range(n):
        vec = []
        for i in desc['inputs']:
            v = draw(value_st(i['w']))
            if draw(st.integers(0, 5)) == 0:
                v = draw(st.one_of(st.integers(-1000, -1), st.integers(mask(i['w']) + 1, (mask(i['w']) + 1) * 3)))
            vec.append(v)
        seq.append(vec)
    seqs = draw(st.lists(st.fixed_dictionaries({'w': st.sampled_from([1, 3, 8]),
                                                'values': st.lists(st.integers(-600, 600), min_size=1, max_size=5)}), max_size=2))
    return {'desc': desc, 'inputs': seq, 'seqs': seqs}


def block_cases():
    names = sorted(list(ARITH.keys()) + list(LOGIC.keys()))

    def for_block(n):
        cat = ARITH if n in ARITH else LOGIC
        e = cat[n]

        def extreme(w):
            return st.sampled_from(sorted({0, 1, mask(w), 1 << (w - 1), mask(w) - 1 if w > 1 else 0})) | value_st(w)
        return e.strat.flatmap(lambda cfg: st.tuples(*[extreme(w) for w in e.inw(cfg)]).map(
            lambda vs: {'block': n, 'cfg': cfg, 'in': list(vs)}))
    return st.sampled_from(names).flatmap(for_block)


def strata(tier):
    a, b, mx, cyc = (1200, 3000, 20, 6) if tier == 'quick' else (20000, 60000, 50, 20)
    return [
        {'name': 'netlists', 'kind': 'hyp', 'examples': a, 'strategy': lambda: netlist_cases(mx, cyc), 'run_case': run_case},
        {'name': 'bidirectional_wires', 'kind': 'hyp', 'examples': 200 if tier == 'quick' else 5000, 'strategy': bidir_cases, 'run_case': run_case},
        {'name': 'leaf_preparing_a_wire_twice', 'kind': 'hyp', 'examples': 150 if tier == 'quick' else 4000, 'strategy': behav_cases, 'run_case': run_case},
        {'name': 'leaves_with_independent_port_widths', 'kind': 'hyp', 'examples': 4000 if tier == 'quick' else 60000, 'strategy': free_cases, 'run_case': run_case},
        {'name': 'catalogue_blocks_at_extremes', 'kind': 'hyp', 'examples': b, 'strategy': block_cases, 'run_case': run_case},
    ]

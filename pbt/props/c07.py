"""C07 - integer arithmetic blocks compute their mathematical function for all inputs."""
from ..cat_arith import E
from .. import combprop

PROP = 'C07'
RULE = ('case = (block, configuration, input vector); exhaustive stratum: every configuration the constructor '
        'accepts with all widths <= W and every input vector (distinct by construction); Hypothesis stratum: '
        'widths up to 128 with boundary-biased operands, distinct by canonical JSON hash; stratum every_width_edge_operands: '
        'every block at operand widths 1..17 and a spread up to 70 (every width 1..140 in the thorough tier) with equal, +1 and doubled result widths and edge operands '
        '(0, 1, all ones, top bit, decimal boundaries). Non-trivial iff the '
        'unreduced mathematical result differs from its reduction modulo 2^(output width) (overflow, borrow, '
        'negative value) or an operand is at an extreme (all ones or only the top bit set).')
ASSUMPTIONS = [
    'CPython integer arithmetic is correct; two\'s complement decoding is written in the harness',
    'a configuration whose constructor raises/asserts is outside the domain (counted as rejected_by_constructor)',
    'blocks that are not signed variants read each operand as an unsigned integer of its own width',
    'Div/Mod/SignedDiv are only judged for a non-zero divisor; rotations only for amounts <= data width',
]

run_case = combprop.make_run_case(E)
_run_task = combprop.make_run_task(E)


def strata(tier):
    if tier == 'quick':
        W, bits, n = 3, 10, 6000
    else:
        W, bits, n = 5, 16, 200000
    return [
        {'name': 'exhaustive_small_widths', 'kind': 'enum', 'exhaustive': True,
         'tasks': combprop.enum_tasks(E, W, bits), 'run_task': _run_task},
        {'name': 'every_width_edge_operands', 'kind': 'enum', 'exhaustive': False,
         'tasks': combprop.width_tasks(E, combprop.QUICK_WIDTHS if tier == 'quick' else range(1, 141)), 'run_task': combprop.make_width_task(E)},
        {'name': 'one_wire_on_two_ports', 'kind': 'hyp', 'examples': n // 4,
         'strategy': lambda: combprop.alias_strategy(E), 'run_case': run_case},
        {'name': 'hypothesis_wide', 'kind': 'hyp', 'examples': n,
         'strategy': lambda: combprop.case_strategy(E), 'run_case': run_case},
    ]


def extra_coverage(tier):
    return {'blocks': sorted(E.keys())}

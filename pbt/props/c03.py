"""C03 - emitted Verilog is self-consistent: it parses, resolves and elaborates."""
import copy
import re

import py4hw
from hypothesis import strategies as st

from .. import vlog, vcheck, rtl, netgen
from ..rtl import Refused
from ..netgen import netlists, build, is_state
from ..runner import ok, fail, discard, HarnessError, exception_signature
from ..cat_arith import E as ARITH
from ..cat_logic import L as LOGIC
from . import c09

PROP = 'C03'
RULE = ('case = a design whose Verilog is requested: (a) every catalogue block (arithmetic, logic, sequential, emulation, '
        'UART) wrapped in a structural top at generated widths/parameters; (b) hierarchical netlists with adversarial '
        'wire / port / instance names (reserved words, names that collide after the w_/i_/reserved_ prefixing); (c) two '
        'instances whose module names may coincide although their optional ports or widths differ. The text must parse '
        'in the subset grammar, declare every identifier exactly once, use no reserved word, define every instantiated '
        'module exactly once, connect existing ports with equal widths, and give every net exactly one driver of the '
        'right kind; objects emitted under one name must have identical interfaces. Non-trivial iff the text has >= 2 '
        'modules or contains a name from the adversarial classes. Distinct by JSON hash.')
ASSUMPTIONS = [
    'a generation request that raises is a refusal (allowed); only returned text is judged',
    'names are identifier-shaped and unique within their py4hw scope (wires per parent, ports per block, children per parent)',
    'bit/part-select of a scalar net is illegal (IEEE 1364-2005 4.2.1/5.2.1; the library itself special-cases 1-bit BitsLSBF for this reason)',
    'closure is judged on getVerilogForHierarchy(); declared black boxes (createdStructures) are external',
]

RESERVED_POOL = ['reg', 'wire', 'input', 'output', 'module', 'begin', 'end', 'assign', 'signed', 'logic', 'bit', 'int', 'case']
PLAIN_POOL = ['x', 'y', 'z', 'a', 'b', 'd', 'q', 'r', 'e', 'clk', 'sel']


def adversarial_class(name):
    if name in vlog.RESERVED:
        return 'reserved'
    if name.startswith(('w_', 'i_', 'reserved_')):
        return 'prefix'
    return None


def judge(text, top_obj, tags, blackboxes=()):
    """returns failure tuple (sig, msg) or None"""
    try:
        mods = vlog.parse(text)
    except vlog.VParseError as e:
        return ('parse', 'emitted text does not parse: {}'.format(e)), None
    if not mods:
        return ('no_module_defined', 'the returned text defines no module at all (the requested top is not defined)'), mods
    problems = vcheck.check_design(mods, blackboxes=blackboxes, closed=True)
    if problems:
        rule, msg = problems[0]
        modname = msg.split(':')[0]
        return ('{}|{}'.format(rule, rtl.module_base(modname)), '{} ({} problem(s) in total: {})'.format(
            msg, len(problems), sorted({p[0] for p in problems}))), mods
    # the text must also elaborate in the interpreter (parameters resolved, ranges positive, ...)
    try:
        vlog.Sim(mods, mods[0].name)
    except vlog.VSimError as e:
        return ('elaboration', 'emitted text does not elaborate: {}'.format(e)), mods
    except RecursionError:
        raise
    return None, mods


def interchangeable(top_obj):
    """objects emitted under one module name must present the same interface when generated in isolation"""
    groups = rtl.objects_by_module_name(top_obj)
    for name, objs in groups.items():
        if len(objs) < 2:
            continue
        heads = []
        for o in objs:
            try:
                t = rtl.generate(o, hierarchy=False)
            except Refused:
                continue
            if not t.strip() or t.lstrip().startswith('// WARNING'):
                continue
            try:
                ms = vlog.parse(t)
            except vlog.VParseError:
                continue
            if ms:
                heads.append((vcheck.header(ms[0]), o))
        for h, o in heads[1:]:
            if h != heads[0][0]:
                return ('shared_name_interface_differs|{}'.format(re.sub(r'\d+', 'N', rtl.module_base(name))),
                        'objects {} and {} are both emitted as module {} but their interfaces differ: {} vs {}'.format(
                            heads[0][1].getFullPath(), o.getFullPath(), name, heads[0][0], h))
    return None


def finish(text, top_obj, tags, extra_nt=False):
    f, mods = judge(text, top_obj, tags)
    if f:
        return fail(f[0], f[1] + '\n--- text (head) ---\n' + text[:700], cls=tags)
    f = interchangeable(top_obj)
    if f:
        return fail(f[0], f[1], cls=tags)
    return ok(extra_nt or len(mods) >= 2, tags + ['modules={}'.format(min(len(mods), 5))])


# ---- (a) catalogue blocks ---------------------------------------------------------------------------------------
def run_block(case):
    name = case['block']
    cfg = case['cfg']
    tags = ['block:' + name]
    if name in c09.BLOCKS:
        Mcls, bld = c09.BLOCKS[name]
        model = Mcls(cfg)
        inw, outw = model.ports(), model.outs()
        builder = lambda t, i, o: bld(t, i, o, cfg)
    else:
        cat = ARITH if name in ARITH else LOGIC
        e = cat[name]
        inw, outw = e.inw(cfg), e.outw(cfg)
        builder = lambda t, i, o: e.build(t, i, o, cfg)
    try:
        sysm, top, ins, outs, blk = rtl.wrap(inw, outw, builder)
    except HarnessError:
        raise
    except Exception:
        return discard('rejected_by_constructor', tags)
    try:
        text = rtl.generate(top, history=case.get('history', ()))
    except Refused as e:
        return discard('generation_refused', tags + ['refused:' + name])
    if case.get('history'):
        tags.append('generator_reused')
    r = finish(text, top, tags)
    if r['fail']:
        r['fail']['sig'] = r['fail']['sig'] + '|' + name + ('|1-bit-operand' if cfg.get('wa') == 1 else '')
    return r


def block_cases():
    names = [n for n in sorted(list(ARITH) + list(LOGIC)) if not n.startswith('hlp.')]

    def for_block(n):
        cat = ARITH if n in ARITH else LOGIC
        return cat[n].strat.map(lambda c: {'kind': 'block', 'block': n, 'cfg': c})
    seqs = sorted(c09.BLOCKS)
    hist = st.one_of(st.just(None), st.just(None), st.lists(st.sampled_from(['hier_top', 'flat_top', 'hier_child', 'flat_child']), min_size=1, max_size=3))

    def with_history(t):
        case, h = t
        return dict(case, history=h) if h else case
    return st.tuples(st.one_of(st.sampled_from(names).flatmap(for_block),
                               st.sampled_from(seqs).flatmap(lambda n: c09.cfgs(n).map(lambda c: {'kind': 'block', 'block': n, 'cfg': c}))),
                     hist).map(with_history)


def _block_enum_task(task):
    evals = nt = 0
    fails = {}
    cls = {}
    discards = {}
    for cfg in task['cfgs']:
        r = run_block({'kind': 'block', 'block': task['block'], 'cfg': cfg})
        if r['discard']:
            discards[r['discard']] = discards.get(r['discard'], 0) + 1
            continue
        evals += 1
        nt += 1 if r['nt'] else 0
        if r['fail']:
            s = r['fail']['sig']
            if s not in fails:
                fails[s] = {'sig': s, 'msg': r['fail']['msg'], 'count': 1, 'case': {'kind': 'block', 'block': task['block'], 'cfg': cfg}}
            else:
                fails[s]['count'] += 1
    cls['block:' + task['block']] = evals
    return {'evals': evals, 'nt': nt, 'cls': cls, 'discards': discards, 'fails': list(fails.values()), 'samples': []}


def _block_enum_tasks(W):
    tasks = []
    for cat in (ARITH, LOGIC):
        for n in sorted(cat):
            if n.startswith('hlp.'):
                continue
            cfgs = list(cat[n].small(W))
            for i in range(0, len(cfgs), 60):
                tasks.append({'block': n, 'cfgs': cfgs[i:i + 60]})
    return tasks


# ---- (b) netlists with adversarial names ----------------------------------------------------------------------
def under_top(desc):
    d = copy.deepcopy(desc)
    d['groups'] = [{'parent': -1, 'enable': None}] + [{'parent': g['parent'] + 1, 'enable': g.get('enable')} for g in d['groups']]
    for nd in d['nodes']:
        nd['g'] += 1
    return d


def prefix_collision(names):
    """names that collide once py4hw adds its w_ / i_ / reserved_ prefixes (known finding c03-prefix-collision)"""
    alln = set(names.values())
    if 'clk' in alln:
        return True              # collides with the implicit clock port of every module with sequential descendants
    for n in alln:
        if ('w_' + n) in alln or ('i_' + n) in alln:
            return True
        if n in vlog.RESERVED and ('reserved_' + n) in alln:
            return True
        if n.startswith('i_u') and n[3:].isdigit():
            return True          # default instance names are u<k>, emitted as i_u<k>
        if n.startswith('i_grp') or n.startswith('w_n') or n.startswith('w_i'):
            return True
    return False


def run_netlist(case):
    desc = case['desc']
    names = case.get('names') or {}
    tags = ['netlist']
    r = _run_netlist(case, desc, names, tags)
    if r['fail'] and prefix_collision(names):
        r['fail']['sig'] += '|prefix_collision'
    if prefix_collision(names):
        r['cls'].append('known_trigger:prefix_collision')
    return r


def _run_netlist(case, desc, names, tags):
    try:
        b = build(desc, names=names)
    except HarnessError:
        raise
    except Exception as e:
        # py4hw refused the construction (e.g. duplicate wire name in one scope): outside the domain
        return discard('construction_rejected', tags)
    top = b.group_obj.get(0)
    if top is None:
        return discard('empty_top', tags)
    for sa, sb, fresh_name in case.get('renames', ()):
        # Wire.rename after construction: to a fresh name, or to the name of another wire (py4hw refuses the latter
        # when both live in the same block; a refusal leaves the design outside the domain)
        wa = b.wire.get(sa)
        if wa is None:
            continue
        wb = None
        if sb is not None:
            # sb selects among the other wires owned by the same block
            peers = [b.wire[s] for s in sorted(b.wire) if s != sa and b.wire[s].parent is wa.parent and b.wire[s] is not wa]
            if not peers:
                continue
            wb = peers[sb % len(peers)]
        try:
            wa.rename(wb.name if wb is not None else fresh_name)
        except Exception:
            return discard('rename_rejected', tags)
        tags.append('renamed_to_existing' if wb is not None else 'renamed')
    edit = None
    if case.get('expose') is not None:
        # between the earlier requests and the judged one an internal net of the top block is exposed as a new output port
        inner = [w for n_, w in sorted(top._wires.items()) if all(p.wire is not w for p in list(top.inPorts) + list(top.outPorts))
                 and type(w) is py4hw.Wire and w.getSource() is not None]
        if inner:
            wx = inner[case['expose'] % len(inner)]

            def edit():
                top.addOut('dbg_out', wx)
            tags.append('net_exposed_between_requests')
    try:
        text = rtl.generate(top, history=case.get('history', ()), between=edit)
    except Refused as e:
        return discard('generation_refused', tags)
    if case.get('history'):
        tags.append('generator_reused')
    adv = sorted({adversarial_class(v) for v in names.values()} - {None})
    tags += ['names:' + a for a in adv]
    return finish(text, top, tags, extra_nt=bool(adv))


@st.composite
def netlist_cases(draw, max_nodes):
    desc = under_top(draw(netlists(max_nodes=max_nodes, n_regs=(0, 3), hierarchy=3, max_w=33, reg_values=True, reg_d_any=True)))
    names = {}
    used = set()
    pool = PLAIN_POOL + RESERVED_POOL + ['w_' + p for p in PLAIN_POOL[:5]] + ['i_' + p for p in PLAIN_POOL[:5]] + \
        ['reserved_' + p for p in RESERVED_POOL[:4]] + ['i_u0', 'i_u1', 'w_w_x']
    mode = draw(st.sampled_from(['plain', 'adversarial', 'collide', 'collide', 'mixed']))
    if mode == 'collide':
        # a tiny pool: a local wire x next to a port w_x, an instance x next to a net i_x, reserved words
        pool = ['x', 'w_x', 'i_x', 'y', 'w_y', 'reg', 'reserved_reg', 'clk']

    def fresh(base):
        n = base
        k = 0
        # generated names must not collide with the default names of unnamed signals / instances / wrappers
        # (i<k>, n<k>, u<k>, grp<k>): two ports of one wrapper with the same name would be a user error
        while n in used or re.match(r'^(i|n|u|grp)\d+$', n):
            k += 1
            n = '{}_{}'.format(base, k) if base in ('i', 'n', 'u', 'grp') else '{}{}'.format(base, k)
        used.add(n)
        return n
    if mode != 'collide':
        # the known prefix-collision trigger is excluded by construction here (it is exercised in 'collide' mode)
        pool = [p for p in pool if not p.startswith(('w_', 'i_', 'reserved_')) and p != 'clk'] + ['w', 'i', 'reserved', 'wx', 'ix']
    sigs = ['i%d' % k for k in range(len(desc['inputs']))] + ['n%d' % k for k in range(len(desc['nodes']))]
    for s in sigs:
        if mode == 'plain' or (mode == 'mixed' and draw(st.booleans())):
            continue
        names[s] = fresh(draw(st.sampled_from(pool)))
    if mode != 'plain':
        inst_used = {}
        for k, nd in enumerate(desc['nodes']):
            if draw(st.booleans()):
                base = draw(st.sampled_from(pool))
                g = nd['g']
                n = base
                c = 0
                while (g, n) in inst_used:
                    c += 1
                    n = '{}{}'.format(base, c)
                inst_used[(g, n)] = 1
                names['inst%d' % k] = n
    # a sub-block clocked by a named clock driver of its own (the clock wire is an input of the design), next to
    # registers of the default clock
    subs = [gi for gi, g in enumerate(desc['groups']) if gi > 0 and
            any(is_state(nd) and netgen.group_inside(desc, nd['g'], gi) for nd in desc['nodes'])]
    if subs and draw(st.integers(0, 2)) == 0:
        desc['inputs'].append({'w': 1})
        desc['groups'][draw(st.sampled_from(subs))]['clk'] = {'name': draw(st.sampled_from(['clk_slow', 'clk2'])), 'wire': 'i%d' % (len(desc['inputs']) - 1)}
    if mode == 'plain' and draw(st.booleans()):
        desc['scoped_wire_names'] = True      # every block numbers its wires from 0: inner and outer wires share names
    case = {'kind': 'netlist', 'desc': desc, 'names': names}
    if draw(st.integers(0, 3)) == 0:
        rn = []
        for _ in range(draw(st.integers(1, 2))):
            a = draw(st.sampled_from(sigs))
            other = draw(st.one_of(st.none(), st.integers(0, 7)))
            rn.append([a, other, 'rn_{}'.format(len(rn))])
        case['renames'] = rn
    if draw(st.integers(0, 2)) == 0:
        # the judged text is requested from a generator object that already served other requests
        case['history'] = draw(st.lists(st.sampled_from(['hier_top', 'flat_top', 'hier_child', 'flat_child']), min_size=1, max_size=3))
        if draw(st.booleans()):
            case['expose'] = draw(st.integers(0, 7))
            if draw(st.booleans()):
                case['history'] = case['history'] + ['flat_top']      # the last earlier request ended on the module that is edited
    return case


# ---- (c) reuse under one module name ------------------------------------------------------------------------------
def run_pair(case):
    kind = case['pair']
    p = case['p']
    tags = ['pair:' + kind]

    def builder(top, i, o):
        if kind == 'Abs':
            py4hw.Abs(top, 'u0', i[0], o[0], o[2] if p['inv0'] else None)
            py4hw.Abs(top, 'u1', i[1], o[1], o[3] if p['inv1'] else None)
            if not p['inv0']:
                py4hw.Constant(top, 'k0', 0, o[2])
            if not p['inv1']:
                py4hw.Constant(top, 'k1', 0, o[3])
        elif kind == 'Reg':
            py4hw.Reg(top, 'u0', i[0], o[0], reset_value=p['rv0'])
            py4hw.Reg(top, 'u1', i[1], o[1], reset_value=p['rv1'])
        elif kind == 'Add':
            py4hw.Add(top, 'u0', i[0], i[1], o[0], ci=i[2] if p['ci0'] else None)
            py4hw.Add(top, 'u1', i[0], i[3], o[1], ci=i[2] if p['ci1'] else None)
        elif kind == 'Neg':
            py4hw.Neg(top, 'u0', i[0], o[0])
            py4hw.Neg(top, 'u1', i[1], o[1])
        elif kind == 'BufEnable':
            py4hw.BufEnable(top, 'u0', i[0], i[2], o[0])
            py4hw.BufEnable(top, 'u1', i[1], i[2], o[1])
        elif kind == 'Latch':
            py4hw.Latch(top, 'u0', i[0], o[0], i[2])
            py4hw.Latch(top, 'u1', i[1], o[1], i[2])
        elif kind == 'Sign':
            py4hw.Sign(top, 'u0', i[0], o[0])
            py4hw.Sign(top, 'u1', i[1], o[1])
        else:
            raise HarnessError(kind)

    if kind == 'Abs':
        inw, outw = [p['wa0'], p['wa1']], [p['wr0'], p['wr1'], 1, 1]
    elif kind == 'Reg':
        inw, outw = [p['wd0'], p['wd1']], [p['wq'], p['wq']]
    elif kind == 'Add':
        inw, outw = [p['w'], p.get('wb0', p['w']), 1, p.get('wb1', p['w'])], [p['w'], p['w']]
    elif kind == 'Neg':
        inw, outw = [p['wa0'], p['wa1']], [p['wr0'], p['wr1']]
    elif kind in ('BufEnable', 'Latch'):
        inw, outw = [p['w0'], p['w1'], 1], [p['w0'], p['w1']]
    else:
        inw, outw = [p['w0'], p['w1']], [1, 1]
    try:
        sysm, top, ins, outs, blk = rtl.wrap(inw, outw, builder)
    except HarnessError:
        raise
    except Exception:
        return discard('rejected_by_constructor', tags)
    try:
        text = rtl.generate(top)
    except Refused:
        return discard('generation_refused', tags)
    r = finish(text, top, tags, extra_nt=True)
    if r['fail']:
        r['fail']['sig'] += '|pair:' + kind
    return r


def pair_cases():
    w = st.sampled_from([1, 2, 2, 4, 4, 4, 8])
    b = st.booleans()
    rv = st.sampled_from([None, 0, 1, 3, -1])
    return st.one_of(
        st.fixed_dictionaries({'wa0': w, 'wa1': w, 'wr0': w, 'wr1': w, 'inv0': b, 'inv1': b}).map(lambda p: {'kind': 'pair', 'pair': 'Abs', 'p': p}),
        st.fixed_dictionaries({'wd0': w, 'wd1': w, 'wq': w, 'rv0': rv, 'rv1': rv}).map(lambda p: {'kind': 'pair', 'pair': 'Reg', 'p': p}),
        st.fixed_dictionaries({'w': w, 'wb0': w, 'wb1': w, 'ci0': b, 'ci1': b}).map(lambda p: {'kind': 'pair', 'pair': 'Add', 'p': p}),
        st.fixed_dictionaries({'wa0': w, 'wa1': w, 'wr0': w, 'wr1': w}).map(lambda p: {'kind': 'pair', 'pair': 'Neg', 'p': p}),
        st.fixed_dictionaries({'w0': w, 'w1': w}).flatmap(lambda p: st.sampled_from(['BufEnable', 'Latch', 'Sign']).map(
            lambda k: {'kind': 'pair', 'pair': k, 'p': p})),
    )


# ---- (d) fixed corpus of other library blocks -----------------------------------------------------------------------
def corpus_build(name, top, i, o):
    from py4hw.logic.bus.axi import AXI4StreamInterface
    import py4hw.emulation.vitiswrapping as VW
    import py4hw.emulation.HILWrapperUART as HIL
    import py4hw.logic.protocol.uart as UART
    from py4hw.logic.protocol.uart.sequencer import MsgSequencer
    if name == 'UARTSerializer':
        return UART.UARTSerializer(top, 'dut', o[0], i[0], i[1], i[2], o[1])
    if name == 'UARTDeserializer':
        return UART.UARTDeserializer(top, 'dut', i[0], i[1], i[2], o[0], o[1], o[2])
    if name == 'ClockGenerationAndRecovery':
        return UART.ClockGenerationAndRecovery(top, 'dut', i[0], i[1], o[0], o[1], 8000, 1000)
    if name == 'MsgSequencer':
        return MsgSequencer(top, 'dut', i[0], o[0], o[1], 'Hi!')
    if name == 'MsgSequencer1':
        return MsgSequencer(top, 'dut', i[0], o[0], o[1], 'X')
    if name == 'MsgSequencerSpecial':
        # every printable ASCII character plus control characters: some are special inside Verilog literals
        return MsgSequencer(top, 'dut', i[0], o[0], o[1], ''.join(chr(c) for c in range(32, 127)) + '\n\t\r\x00\x7f')
    if name == 'CMDRequest':
        return HIL.CMDRequest(top, 'dut', o[0], i[0], i[1], o[1], o[2], o[3], o[4], o[5], o[6], o[7], o[8])
    if name == 'CMDResponse':
        return HIL.CMDResponse(top, 'dut', i[0], i[1], i[2], i[3], o[0], o[1])
    if name == 'Axi2ClkFSM':
        return VW.Axi2ClkFSM(top, 'dut', i[0], i[1], i[2], o[0], o[1], o[2])
    if name == 'VitisKernelFSM':
        return VW.VitisKernelFSM(top, 'dut', i[0], i[1], o[0], o[1], o[2], i[2], i[3])
    if name == 'AutoReset':
        return py4hw.AutoReset(top, 'dut', o[0])
    if name == 'Latch':
        return py4hw.Latch(top, 'dut', i[0], o[0], i[1])
    if name == 'AsynchronousMemory':
        return py4hw.AsynchronousMemory(top, 'dut', i[0], i[1], i[2], o[0], i[3])
    if name == 'SubBorrowIn':
        return py4hw.SubBorrowIn(top, 'dut', i[0], i[1], o[0], i[2])
    if name == 'RotateLeftConstant':
        return py4hw.RotateLeftConstant(top, 'dut', i[0], 3, o[0])
    if name == 'FPAdder_SP':
        return py4hw.FPAdder_SP(top, 'dut', i[0], i[1], o[0])
    if name == 'FPMult_SP':
        return py4hw.FPMult_SP(top, 'dut', i[0], i[1], o[0])
    if name == 'FPtoInt_SP':
        return py4hw.FPtoInt_SP(top, 'dut', i[0], o[0], o[1], o[2], o[3])
    if name == 'InttoFP_SP':
        return py4hw.InttoFP_SP(top, 'dut', i[0], o[0], o[1])
    if name == 'FPComparator_SP':
        return py4hw.FPComparator_SP(top, 'dut', i[0], i[1], o[0], o[1], o[2])
    raise HarnessError(name)


CORPUS = {
    'UARTSerializer': ([1, 8, 1], [1, 1]), 'UARTDeserializer': ([1, 1, 1], [1, 8, 1]),
    'ClockGenerationAndRecovery': ([1, 1], [1, 1]), 'MsgSequencer': ([1], [1, 8]), 'MsgSequencer1': ([1], [1, 8]), 'MsgSequencerSpecial': ([1], [1, 8]),
    'CMDRequest': ([1, 8], [1, 4, 32, 4, 1, 1, 1, 1, 1]), 'CMDResponse': ([32, 8, 1, 1], [1, 8]),
    'Axi2ClkFSM': ([1, 64, 1], [64, 1, 1]), 'VitisKernelFSM': ([1, 1, 1, 1], [1, 1, 1]), 'AutoReset': ([], [1]),
    'Latch': ([4, 1], [4]), 'AsynchronousMemory': ([2, 2, 1, 4], [4]), 'SubBorrowIn': ([4, 4, 1], [4]),
    'RotateLeftConstant': ([8], [8]), 'FPAdder_SP': ([32, 32], [32]), 'FPMult_SP': ([32, 32], [32]),
    'FPtoInt_SP': ([32], [32, 1, 1, 1]), 'InttoFP_SP': ([32], [32, 1]), 'FPComparator_SP': ([32, 32], [1, 1, 1]),
}


def run_corpus(case):
    name = case['name']
    inw, outw = CORPUS[name]
    tags = ['corpus:' + name]
    try:
        sysm, top, ins, outs, blk = rtl.wrap(inw, outw, lambda t, i, o: corpus_build(name, t, i, o))
    except HarnessError:
        raise
    try:
        text = rtl.generate(top)
    except Refused:
        return discard('generation_refused', tags + ['refused:' + name])
    r = finish(text, top, tags)
    if r['fail']:
        r['fail']['sig'] += '|' + name
    return r


def _corpus_task(task):
    r = run_corpus({'kind': 'corpus', 'name': task['name']})
    out = {'evals': 1, 'nt': 1 if r['nt'] else 0, 'cls': {c: 1 for c in r['cls']}, 'fails': [], 'samples': [],
           'discards': {r['discard']: 1} if r['discard'] else {}}
    if r['fail']:
        out['fails'].append({'sig': r['fail']['sig'], 'msg': r['fail']['msg'], 'case': {'kind': 'corpus', 'name': task['name']}})
    return out


# ---- (e) every reserved word as a port / wire / instance name -------------------------------------------------------------
def run_reserved(case):
    word = case['word']
    tags = ['reserved_word_as:' + case['role']]
    role = case['role']

    def builder(top, i, o):
        if role == 'port':
            return py4hw.Buf(top, 'u0', i[0], o[0])
        if role == 'wire':
            mid = top.wire(word, 4)
            py4hw.Not(top, 'u0', i[0], mid)
            return py4hw.Not(top, 'u1', mid, o[0])
        inner = netgen.Wrapper(top, word)         # structural child instance named by the word
        inner.addIn('a', i[0])
        inner.addOut('r', o[0])
        return py4hw.Not(inner, 'n', i[0], o[0])
    try:
        sysm, top, ins, outs, blk = rtl.wrap([4], [4], builder, in_names=[word] if role == 'port' else None,
                                             out_names=None)
    except HarnessError:
        raise
    except Exception:
        return discard('rejected_by_constructor', tags)
    try:
        text = rtl.generate(top)
    except Refused:
        return discard('generation_refused', tags)
    r = finish(text, top, tags, extra_nt=True)
    if r['fail']:
        r['fail']['sig'] += '|reserved_word_as_' + role
    return r


def _reserved_task(task):
    evals = 0
    fails = {}
    for word in task['words']:
        for role in ('port', 'wire', 'instance'):
            r = run_reserved({'kind': 'reserved', 'word': word, 'role': role})
            if r['discard']:
                continue
            evals += 1
            if r['fail']:
                sg = r['fail']['sig']
                if sg not in fails:
                    fails[sg] = {'sig': sg, 'msg': r['fail']['msg'], 'count': 1, 'case': {'kind': 'reserved', 'word': word, 'role': role}}
                else:
                    fails[sg]['count'] += 1
    return {'evals': evals, 'nt': evals, 'cls': {'reserved_words': evals}, 'fails': list(fails.values()), 'samples': []}


def run_case(case):
    k = case['kind']
    if k == 'reserved':
        return run_reserved(case)
    if k == 'block':
        return run_block(case)
    if k == 'netlist':
        return run_netlist(case)
    if k == 'pair':
        return run_pair(case)
    if k == 'corpus':
        return run_corpus(case)
    raise HarnessError('unknown kind')


def shrink_candidates(case):
    if case['kind'] != 'netlist':
        return
    names = case.get('names') or {}
    for k in sorted(names):
        n2 = dict(names)
        del n2[k]
        yield dict(case, names=n2)


def strata(tier):
    q = tier == 'quick'
    return [
        {'name': 'catalogue_small_widths', 'kind': 'enum', 'exhaustive': True, 'run_task': _block_enum_task,
         'tasks': _block_enum_tasks(2 if q else 4)},
        {'name': 'catalogue_blocks', 'kind': 'hyp', 'examples': 400 if q else 8000, 'strategy': block_cases, 'run_case': run_case},
        {'name': 'netlists_adversarial_names', 'kind': 'hyp', 'examples': 400 if q else 12000,
         'strategy': lambda: netlist_cases(12 if q else 30), 'run_case': run_case},
        {'name': 'shared_module_name_pairs', 'kind': 'hyp', 'examples': 200 if q else 4000, 'strategy': pair_cases, 'run_case': run_case},
        {'name': 'every_reserved_word', 'kind': 'enum', 'exhaustive': True, 'run_task': _reserved_task,
         'tasks': [{'words': sorted(vlog.RESERVED)[i::16]} for i in range(16)]},
        {'name': 'library_corpus', 'kind': 'enum', 'exhaustive': False, 'run_task': _corpus_task,
         'tasks': [{'name': n} for n in sorted(CORPUS)]},
    ]

"""C20 - the hardware-in-the-loop UART command codec decodes and encodes exactly.

A CMDRequest and a CMDResponse are wired together (start_resp) and driven by a producer that holds
each character valid until it is accepted and by a consumer with a generated ready pattern.  The
oracle is a reference decoder/encoder written from the statement: the exact ordered log of action
pulses (with the transmitted numbers) and the exact response strings."""
import py4hw
from py4hw.emulation.HILWrapperUART import CMDRequest, CMDResponse
from hypothesis import strategies as st

from ..bench import mask
from ..runner import ok, fail, discard, HarnessError

PROP = 'C20'
RULE = ('case = (wire widths, command list from the grammar I<hex>= / <hex>! / O<hex>? / K<hex>; with 1..10 upper-case '
        'hex digits (leading zeros allowed) and optional newline separators, producer idle gaps, consumer ready '
        'pattern, vin/size for every response; stratum response_encoder_alone: a requester pulses start_resp directly, '
        'also in the first cycle after the previous response ended). Non-trivial iff the stream has >= 1 multi-digit number, >= 1 K with '
        'n >= 2 and >= 1 consumer stall inside a response. Distinct by JSON hash.')
ASSUMPTIONS = [
    'the producer holds each character valid until the edge at which ready and valid are both 1 (ready/valid port)',
    'the host waits for the complete response of an O command before sending the next command (as DUTProxy does)',
    'the consumer ready pattern does not depend on valid; size is the requested number of hex digits, 1..8',
    'liveness is bounded: the run may take at most a fixed multiple of the stream length (deterministic cycle budget)',
]

HEX = '0123456789ABCDEF'


def hexstr(n, digits):
    s = ''
    while n:
        s = HEX[n & 15] + s
        n >>= 4
    s = s or '0'
    if len(s) < digits:
        s = '0' * (digits - len(s)) + s
    return s


def build_stream(case):
    """returns (chars, expected action log, expected responses, list of (char index after which to wait for a response))"""
    chars = []
    actions = []
    responses = []
    waits = {}
    wi, wv, wo = case['wi'], case['wv'], case['wo']
    for c in case['cmds']:
        k = c[0]
        if k == 'I':
            chars += list('I' + hexstr(c[1], c[2]) + '=')
            actions.append(['set_index_in', c[1] & mask(wi)])
        elif k == 'V':
            chars += list(hexstr(c[1], c[2]) + '!')
            actions.append(['set_v_in', c[1] & mask(wv)])
        elif k == 'O':
            chars += list('O' + hexstr(c[1], c[2]) + '?')
            actions.append(['set_index_out', c[1] & mask(wo)])
            actions.append(['start_resp', None])
            vin, size = c[3], c[4]
            responses.append('=' + ''.join(HEX[(vin >> (4 * (size - 1 - i))) & 15] for i in range(size)) + '!')
            waits[len(chars) - 1] = (vin, size)
        elif k == 'K':
            chars += list('K' + hexstr(c[1], c[2]) + ';')
            for _ in range(c[1]):
                actions.append(['clk_pulse', None])
        else:
            raise HarnessError('bad command ' + str(c))
        if case.get('sep'):
            chars.append('\n')
    return chars, actions, responses, waits


def run_case(case):
    if case.get('kind') == 'encoder':
        return run_encoder(case)
    chars, exp_actions, exp_resp, waits = build_stream(case)
    sysm = py4hw.HWSystem()
    w = sysm.wire
    ready, valid, c = w('ready'), w('valid'), w('c', 8)
    index_in, v_in, index_out = w('index_in', case['wi']), w('v_in', case['wv']), w('index_out', case['wo'])
    set_index_in, set_v_in, set_index_out = w('set_index_in'), w('set_v_in'), w('set_index_out')
    clk_pulse, start_resp = w('clk_pulse'), w('start_resp')
    vin, size = w('vin', 32), w('size', 8)
    cready, cvalid, cv = w('cready'), w('cvalid'), w('cv', 8)
    CMDRequest(sysm, 'req', ready, valid, c, index_in, v_in, index_out, set_index_in, set_v_in, set_index_out, clk_pulse, start_resp)
    CMDResponse(sysm, 'resp', vin, size, start_resp, cready, cvalid, cv)
    sim = sysm.getSimulator()

    gaps = case['gaps'] or [0]
    rpat = case['ready'] or [1]
    if not any(rpat):
        rpat = rpat + [1]
    total_k = sum(cm[1] for cm in case['cmds'] if cm[0] == 'K')
    budget = 60 + 12 * len(chars) + 3 * total_k + sum(len(r) for r in exp_resp) * (3 + 2 * len(rpat)) + sum(gaps) * 0 + len(chars) * max(gaps)
    pos = 0                 # next char to offer
    idle = gaps[0] if gaps else 0
    waiting_resp = None     # expected number of response chars still to collect before continuing
    log = []
    resp_log = []
    cur = ''
    prev = {'set_index_in': 0, 'set_v_in': 0, 'set_index_out': 0, 'start_resp': 0, 'clk_pulse': 0}
    high = {k: 0 for k in prev}
    stalled_inside = False
    accepted = []
    t = 0
    done_at = None
    while t < budget:
        offering = pos < len(chars) and idle == 0 and waiting_resp is None
        valid.put(1 if offering else 0)
        c.put(ord(chars[pos]) if offering else 0)
        r = rpat[t % len(rpat)]
        cready.put(r)
        if waiting_resp is not None:
            vin.put(waiting_resp[0])
            size.put(waiting_resp[1])
        sim.propagateAll()
        took = offering and ready.get() == 1
        if cvalid.get() == 1 and r == 1:
            cur += chr(cv.get())
            if chr(cv.get()) == '!':
                resp_log.append(cur)
                cur = ''
                waiting_resp = None
        elif cvalid.get() == 1 and r == 0 and cur:
            stalled_inside = True
        sim.clk(1)
        t += 1
        if took:
            accepted.append(chars[pos])
            if pos in waits:
                waiting_resp = waits[pos]
            pos += 1
            idle = gaps[pos % len(gaps)]
        elif idle > 0 and waiting_resp is None:
            idle -= 1
        now = {'set_index_in': set_index_in.get(), 'set_v_in': set_v_in.get(), 'set_index_out': set_index_out.get(),
               'start_resp': start_resp.get(), 'clk_pulse': clk_pulse.get()}
        for k in now:
            if now[k]:
                high[k] += 1
            if now[k] and not prev[k]:
                val = {'set_index_in': index_in.get(), 'set_v_in': v_in.get(), 'set_index_out': index_out.get()}.get(k)
                log.append([k, val])
        prev = now
        if pos >= len(chars) and waiting_resp is None and len(log) >= len(exp_actions):
            if done_at is None:
                done_at = t
            if t >= done_at + 12:      # a few more cycles: nothing else may fire
                break
    tags = ['cmds:' + ''.join(sorted(set(cm[0] for cm in case['cmds'])))]
    ctx = 'stream {!r} widths ({},{},{}) gaps {} ready {}'.format(''.join(chars), case['wi'], case['wv'], case['wo'], gaps, rpat)
    if pos < len(chars) or waiting_resp is not None:
        what = 'response_incomplete' if waiting_resp is not None else 'stream_not_consumed'
        return fail('timeout|' + what, 'after {} cycles only {} of {} characters were accepted, responses {} ; {}'.format(
            t, pos, len(chars), resp_log, ctx), cls=tags)
    if log != exp_actions:
        # first difference
        k = 0
        while k < min(len(log), len(exp_actions)) and log[k] == exp_actions[k]:
            k += 1
        got = log[k] if k < len(log) else None
        exp = exp_actions[k] if k < len(exp_actions) else None
        kind = (exp or got)[0]
        why = 'value' if got and exp and got[0] == exp[0] else ('missing' if got is None or (exp and len(log) < len(exp_actions)) else 'extra')
        return fail('actions|{}|{}'.format(kind, why), 'action log differs at #{}: got {} expected {} (log {} expected {}); {}'.format(
            k, got, exp, log, exp_actions, ctx), cls=tags)
    for k in ('set_index_in', 'set_v_in', 'set_index_out', 'start_resp', 'clk_pulse'):
        n = sum(1 for a in exp_actions if a[0] == k)
        if high[k] != n:
            return fail('pulse_width|' + k, '{} was high for {} cycles, expected {} one-cycle pulses; {}'.format(k, high[k], n, ctx), cls=tags)
    if resp_log != exp_resp:
        return fail('response', 'responses {} expected {}; {}'.format(resp_log, exp_resp, ctx), cls=tags)
    multi = any(cm[2] >= 2 for cm in case['cmds'])
    k2 = any(cm[0] == 'K' and cm[1] >= 2 for cm in case['cmds'])
    nt = multi and k2 and stalled_inside
    if stalled_inside:
        tags.append('consumer_stall_inside_response')
    return ok(nt, tags, info={'responses': resp_log, 'cycles': t})


def run_encoder(case):
    """the response encoder on its own: a requester drives start_resp directly, each one-cycle pulse issued `gap` cycles
    after the cycle in which the previous '!' was handed over (gap 0 = the first cycle in which no response is in
    progress), vin / size held during the response"""
    sysm = py4hw.HWSystem()
    w = sysm.wire
    vin, size, start_resp = w('vin', 32), w('size', 8), w('start_resp')
    cready, cvalid, cv = w('cready'), w('cvalid'), w('cv', 8)
    CMDResponse(sysm, 'resp', vin, size, start_resp, cready, cvalid, cv)
    sim = sysm.getSimulator()
    reqs = case['reqs']
    rpat = case['ready'] or [1]
    if not any(rpat):
        rpat = rpat + [1]
    exp = ['=' + ''.join(HEX[(v >> (4 * (sz - 1 - i))) & 15] for i in range(sz)) + '!' for v, sz, g in reqs]
    budget = 40 + sum(g for _, _, g in reqs) + sum(len(e) for e in exp) * (4 + 2 * len(rpat))
    k = 0
    busy = False
    wait = reqs[0][2]
    cur = ''
    out = []
    t = 0
    done_at = None
    since_start = 0
    while t < budget:
        pulse = 0
        if not busy and k < len(reqs):
            if wait == 0:
                pulse = 1
                busy = True
                vin.put(reqs[k][0])
                size.put(reqs[k][1])
            else:
                wait -= 1
        if busy and not pulse and case.get('perturb'):
            # the value port moves on while the response is still being drained (the selected output changes): the
            # response must carry the value that was selected when it was started
            since_start += 1
            pk = case['perturb'][k % len(case['perturb'])]
            if pk is not None and since_start == pk[0]:
                vin.put(pk[1])
        if pulse:
            since_start = 0
        start_resp.put(pulse)
        r = rpat[t % len(rpat)]
        cready.put(r)
        sim.propagateAll()
        if cvalid.get() == 1 and r == 1:
            ch = chr(cv.get())
            cur += ch
            if ch == '!':
                out.append(cur)
                cur = ''
                if busy:
                    k += 1
                    busy = False
                    wait = reqs[k][2] if k < len(reqs) else 0
        sim.clk(1)
        t += 1
        if k >= len(reqs) and not busy:
            if done_at is None:
                done_at = t
            elif t >= done_at + 6:       # a few more cycles: nothing else may be emitted
                break
    tags = ['encoder_alone'] + (['back_to_back_requests'] if any(g == 0 for _, _, g in reqs[1:]) else [])
    ctx = 'requests (vin, size, gap) {} ready {}'.format(reqs, rpat)
    if out != exp or cur:
        kind = 'missing' if len(out) < len(exp) else ('extra' if len(out) > len(exp) or cur else 'value')
        return fail('encoder|response_' + kind, 'responses {} (+{!r}) expected {} after {} cycles; {}'.format(out, cur, exp, t, ctx), cls=tags)
    return ok(len(reqs) >= 2 and any(g == 0 for _, _, g in reqs[1:]) and 0 in rpat, tags)


def encoder_cases():
    req = st.tuples(st.one_of(st.integers(0, mask(32)), st.sampled_from([0, 0xA, 0xDEADBEEF, 0xFFFFFFFF])), st.integers(1, 8),
                    st.sampled_from([0, 0, 0, 1, 2, 5])).map(list)
    pert = st.one_of(st.none(), st.tuples(st.integers(1, 12), st.integers(0, mask(32))).map(list))
    return st.fixed_dictionaries({'kind': st.just('encoder'), 'reqs': st.lists(req, min_size=1, max_size=5),
                                  'ready': st.lists(st.integers(0, 1), min_size=1, max_size=5),
                                  'perturb': st.one_of(st.none(), st.lists(pert, min_size=1, max_size=3))})


def _num(maxbits):
    nd = st.integers(1, 10)
    return nd.flatmap(lambda d: st.tuples(st.one_of(st.integers(0, (1 << min(4 * d, maxbits)) - 1),
                                                    st.sampled_from([0, 1, 9, 10, 15, 16, 0xAF, 0xFFFF])
                                                    ).map(lambda n: n & ((1 << (4 * d)) - 1)), st.just(d)))


def _cmd():
    i = _num(40).map(lambda t: ['I', t[0], t[1]])
    v = _num(40).map(lambda t: ['V', t[0], t[1]])
    o = st.tuples(_num(40), st.integers(0, (1 << 32) - 1), st.integers(1, 8)).map(lambda t: ['O', t[0][0], t[0][1], t[1], t[2]])
    k = st.tuples(st.integers(0, 24), st.integers(1, 4)).map(lambda t: ['K', t[0], max(t[1], len(hexstr(t[0], 1)))])
    return st.one_of(i, v, o, k)


def case_strategy():
    return st.fixed_dictionaries({
        'wi': st.integers(1, 16), 'wv': st.sampled_from([1, 4, 8, 16, 32, 33]), 'wo': st.integers(1, 16),
        'cmds': st.lists(_cmd(), min_size=1, max_size=8),
        'sep': st.booleans(),
        'gaps': st.lists(st.integers(0, 5), min_size=1, max_size=5),
        'ready': st.lists(st.sampled_from([0, 1, 1]), min_size=1, max_size=5),
    })


def shrink_candidates(case):
    if case.get('kind') == 'encoder':
        rq = case['reqs']
        for i in range(len(rq)):
            if len(rq) > 1:
                yield dict(case, reqs=rq[:i] + rq[i + 1:])
        yield dict(case, ready=[1])
        return
    cm = case['cmds']
    for i in range(len(cm)):
        if len(cm) > 1:
            yield dict(case, cmds=cm[:i] + cm[i + 1:])
    yield dict(case, gaps=[0])
    yield dict(case, ready=[1])
    yield dict(case, sep=False)
    for i, c in enumerate(cm):
        if c[1] > 0:
            yield dict(case, cmds=cm[:i] + [[c[0], c[1] // 2] + c[2:]] + cm[i + 1:])
        if c[2] > 1:
            d = c[2] - 1
            yield dict(case, cmds=cm[:i] + [[c[0], c[1] & ((1 << (4 * d)) - 1), d] + c[3:]] + cm[i + 1:])


def strata(tier):
    n = 600 if tier == 'quick' else 20000
    return [{'name': 'command_streams', 'kind': 'hyp', 'examples': n, 'strategy': case_strategy, 'run_case': run_case},
            {'name': 'response_encoder_alone', 'kind': 'hyp', 'examples': n // 2, 'strategy': encoder_cases, 'run_case': run_case}]

"""C14 - fixed-point blocks agree with exact scaled-integer arithmetic."""
import itertools
from fractions import Fraction

import py4hw
from hypothesis import strategies as st

from ..bench import mask, to_signed
from ..cat_arith import Entry
from .. import combprop

PROP = 'C14'
RULE = ('case = (block, formats (1,i,f) of operands/result, operand encodings); exhaustive stratum: every format with '
        'total width <= W and every operand pair (distinct by construction); Hypothesis stratum: widths up to 32 bits '
        'with most-negative / -1 / max operands (distinct by JSON hash). Non-trivial iff an operand is negative, '
        'the exact result does not fit the result format (wraps), or an operand is the most negative value.')
ASSUMPTIONS = [
    'encodings are decoded to exact rationals with fractions.Fraction; the helper class FixedPoint is never the oracle',
    'the comparator is judged only when a-b is representable in the operand format (as the statement says)',
    'the multiplier is judged when the result format has at most as many fraction bits as the exact product (rescaling by truncation)',
    'formats rejected by a constructor (Add/Sub/Comparator require equal formats) are outside the domain',
]

X = {}


def reg(e):
    X[e.name] = e


def fmts(W, lo_total=2):
    for i in range(0, W):
        for f in range(0, W):
            if lo_total <= 1 + i + f <= W:
                yield [1, i, f]


def width(fm):
    return sum(fm)


def val(raw, fm):
    return Fraction(to_signed(raw, width(fm)), 1 << fm[2])


fmt_st = st.tuples(st.integers(0, 16), st.integers(0, 15)).filter(lambda t: t[0] + t[1] >= 1).map(lambda t: [1, t[0], t[1]])


def _same_small(W):
    return ({'af': fm} for fm in fmts(W))


_same_st = fmt_st.map(lambda fm: {'af': fm})


def _cls(c):
    return 'same' if 'bf' not in c else 'mixed'


reg(Entry('FixedPointAdd', ['af'], _same_small, _same_st,
          lambda c: [width(c['af'])] * 2, lambda c: [width(c['af'])],
          lambda sys, i, o, c: py4hw.FixedPointAdd(sys, 'dut', i[0], tuple(c['af']), i[1], tuple(c['af']), o[0], tuple(c['af'])),
          lambda c, v: [to_signed(v[0], width(c['af'])) + to_signed(v[1], width(c['af']))], cls=_cls))
reg(Entry('FixedPointSub', ['af'], _same_small, _same_st,
          lambda c: [width(c['af'])] * 2, lambda c: [width(c['af'])],
          lambda sys, i, o, c: py4hw.FixedPointSub(sys, 'dut', i[0], tuple(c['af']), i[1], tuple(c['af']), o[0], tuple(c['af'])),
          lambda c, v: [to_signed(v[0], width(c['af'])) - to_signed(v[1], width(c['af']))], cls=_cls))
reg(Entry('FixedPointSign', ['af'], _same_small, _same_st,
          lambda c: [width(c['af'])], lambda c: [1],
          lambda sys, i, o, c: py4hw.FixedPointSign(sys, 'dut', i[0], tuple(c['af']), o[0]),
          lambda c, v: [1 if val(v[0], c['af']) < 0 else 0], cls=_cls))


def _cmp_ref(c, v):
    fm = c['af']
    w = width(fm)
    a, b = to_signed(v[0], w), to_signed(v[1], w)
    d = a - b
    if not (-(1 << (w - 1)) <= d < (1 << (w - 1))):
        return None      # difference not representable: outside the stated domain
    return [int(a > b), int(a == b), int(a < b)]


reg(Entry('FixedPointComparator', ['af'], _same_small, _same_st,
          lambda c: [width(c['af'])] * 2, lambda c: [1, 1, 1],
          lambda sys, i, o, c: py4hw.FixedPointComparator(sys, 'dut', i[0], tuple(c['af']), i[1], tuple(c['af']), o[0], o[1], o[2]),
          _cmp_ref, cls=_cls, outnames=['gt', 'eq', 'lt']))


# outputs left unconnected (None): the combinations the block accepts are gt absent with eq and/or lt present
def _cmp_opt_small(W):
    for c in _same_small(W):
        for outs in ('el', 'e', 'l'):
            yield dict(c, outs=outs)


def _cmp_opt_build(sys, i, o, c):
    w = dict(zip(c['outs'], o))
    return py4hw.FixedPointComparator(sys, 'dut', i[0], tuple(c['af']), i[1], tuple(c['af']), None, w.get('e'), w.get('l'))


def _cmp_opt_ref(c, v):
    r = _cmp_ref(c, v)
    if r is None:
        return None
    full = dict(zip('gel', r))
    return [full[k] for k in c['outs']]


reg(Entry('FixedPointComparator.unconnected_outputs', ['af', 'outs'], _cmp_opt_small,
          st.tuples(_same_st, st.sampled_from(['el', 'e', 'l'])).map(lambda t: dict(t[0], outs=t[1])),
          lambda c: [width(c['af'])] * 2, lambda c: [1] * len(c['outs']), _cmp_opt_build, _cmp_opt_ref,
          cls=lambda c: _cls(c) + ',outs=' + c['outs']))


def _mult_small(W):
    Wm = min(W, 4)
    for af in fmts(Wm):
        for bf in fmts(Wm):
            for rf in fmts(Wm + 2):
                if rf[2] <= af[2] + bf[2]:
                    yield {'af': af, 'bf': bf, 'rf': rf}


_mult_st = st.tuples(fmt_st, fmt_st, fmt_st).map(lambda t: {'af': t[0], 'bf': t[1], 'rf': t[2]}).filter(
    lambda c: c['rf'][2] <= c['af'][2] + c['bf'][2])


def _mult_ref(c, v):
    a = to_signed(v[0], width(c['af']))
    b = to_signed(v[1], width(c['bf']))
    low = c['af'][2] + c['bf'][2] - c['rf'][2]
    return [(a * b) >> low]       # floor on the two's complement integer = truncation of the encoding


def _mult_cls(c):
    wa, wb, wr = width(c['af']), width(c['bf']), width(c['rf'])
    low = c['af'][2] + c['bf'][2] - c['rf'][2]
    return 'fits_product={}'.format(low + wr <= wa + wb) + (',same' if c['af'] == c['bf'] == c['rf'] else '')


reg(Entry('FixedPointMult', ['af', 'bf', 'rf'], _mult_small, _mult_st,
          lambda c: [width(c['af']), width(c['bf'])], lambda c: [width(c['rf'])],
          lambda sys, i, o, c: py4hw.FixedPointMult(sys, 'dut', i[0], tuple(c['af']), i[1], tuple(c['bf']), o[0], tuple(c['rf'])),
          _mult_ref, cls=_mult_cls))

run_case = combprop.make_run_case(X)
_run_task = combprop.make_run_task(X)


def strata(tier):
    if tier == 'quick':
        W, bits, n = 4, 10, 4000
    else:
        W, bits, n = 6, 14, 100000
    return [
        {'name': 'exhaustive_small_formats', 'kind': 'enum', 'exhaustive': True,
         'tasks': combprop.enum_tasks(X, W, bits, chunk=60), 'run_task': _run_task},
        {'name': 'one_wire_on_two_ports', 'kind': 'hyp', 'examples': n // 4,
         'strategy': lambda: combprop.alias_strategy(X), 'run_case': run_case},
        {'name': 'hypothesis_wide', 'kind': 'hyp', 'examples': n,
         'strategy': lambda: combprop.case_strategy(X), 'run_case': run_case},
    ]


def extra_coverage(tier):
    return {'blocks': sorted(X.keys())}

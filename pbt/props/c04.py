"""C04 - combinational settling is complete and independent of construction order; cycles are refused."""
import copy

from hypothesis import strategies as st

from .. import netgen
from ..netgen import netlists, input_vectors, ref_trace, build, is_state, sig_w, comb_order, CombCycle
from ..bench import mask, all_wires
from ..runner import ok, fail, discard, HarnessError, exception_signature

PROP = 'C04'
RULE = ('case = (netlist of stateless library leaves - plus a behavioural leaf with both clock() and propagate() and a '
        'multi-output leaf with dangling outputs - with registers as cut points, hierarchy wrappers, several '
        'instantiation orders of the same netlist, input vectors; or a cyclic variant made by redirecting one operand to '
        'a downstream wire; or the same cycle cut by a register; or a late addition after the simulator exists). '
        'Non-trivial iff at least one explored instantiation order is not already topological (the sorter had to move '
        'a leaf), or the case is a cyclic / register-cut variant, or (stratum bidirectional_pad: Sequence -> BidirWire pad -> '
        'BidirBuf in input mode -> Buf/Not consumers, clk(n) chunks) the pad value changes at some edge. Distinct by JSON hash. Deep reverse-order chains stress '
        'the pass limit of the sorter.')
ASSUMPTIONS = [
    'the reference evaluator (pbt/netgen.py ref_trace) computes each node from integer arithmetic; it never calls py4hw',
    'Div/Mod are not generated here (nondeterministic on a zero divisor); Latch (stateful propagate) is not generated',
    'a netlist is cyclic iff its stateless leaves form a directed cycle (registers cut cycles)',
]


def leaf_inversions(b):
    """number of (driver, reader) leaf pairs where the reader was instantiated (appears in allLeaves) before its driver"""
    leaves = [l for l in b.sys.allLeaves() if l.isPropagatable()]
    pos = {id(l): i for i, l in enumerate(leaves)}
    inv = 0
    for l in leaves:
        for p in l.inPorts:
            src = p.wire.getSource() if p.wire is not None else None
            if src is not None and id(src.parent) in pos and pos[id(src.parent)] > pos[id(l)]:
                inv += 1
    return inv


def order_invariant(sim):
    pos = {id(l): i for i, l in enumerate(sim.propagatables)}
    for l in sim.propagatables:
        for p in l.inPorts:
            src = p.wire.getSource() if p.wire is not None else None
            if src is not None and id(src.parent) in pos and src.parent is not l and pos[id(src.parent)] > pos[id(l)]:
                return '{} is evaluated before its driver {}'.format(l.getFullPath(), src.parent.getFullPath())
    return None


def snapshot(b):
    return {s: w.get() for s, w in b.wire.items()}


def full_snapshot(b):
    return {k: w.get() for k, w in all_wires(b.sys).items()}


def compare(b, ref, where):
    for s, w in b.wire.items():
        exp = ref[s]
        if exp is None:
            continue
        if w.get() != exp:
            return 'after {}: wire {} ({}) holds {} but its driver computes {}'.format(where, s, describe(b.desc, s), w.get(), exp)
    return None


def describe(desc, s):
    if s[0] == 'i':
        return 'input'
    nd = desc['nodes'][int(s[1:])]
    return '{}({})'.format(nd['op'], ','.join(nd['args']))


def idempotent(b, sim):
    before = full_snapshot(b)
    for l in list(reversed(sim.propagatables)) + list(sim.propagatables):
        l.propagate()
        now = full_snapshot(b)
        if now != before:
            ch = [k for k in now if now[k] != before[k]]
            w = all_wires(b.sys)[ch[0]]
            return 're-evaluating {} changed wire {}: the netlist was not at its fixpoint'.format(l.getFullPath(), w.getFullPath())
    return None


def features(desc):
    ops = sorted({nd['op'] for nd in desc['nodes']})
    return ops


def run_one(desc, seq, late=None):
    """returns (error or None, inversions, final snapshots per cycle)"""
    holder = {}

    def early(bb):
        holder['sim0'] = bb.sys.getSimulator()
    try:
        b = build(desc, hook=(late, early) if late is not None else None)
    except Exception as e:
        raise HarnessError('builder failed: {!r}'.format(e))
    inv = leaf_inversions(b)
    ref = ref_trace(desc, [seq[0]] + seq)        # element 0: "cycle 0" = settle with first inputs, no edge... see below
    for w, v in zip(b.inputs, seq[0]):
        w.put(v)
    sim = b.sys.getSimulator()
    err = order_invariant(sim)
    if err:
        return ('order_invariant', err), inv, None
    # cycle 0: after creation (registers at 0, inputs as poked)
    regs0 = netgen.reg_init(desc)
    ref0 = netgen.ref_settle(desc, comb_order(desc), seq[0], regs0)
    if late is not None:
        sim.propagateAll()      # getSimulator() on an existing simulator re-sorts only; clk() settles first
    err = compare(b, ref0, 'simulator creation')
    if err:
        return ('fixpoint_at_creation', err), inv, None
    err = idempotent(b, sim)
    if err:
        return ('not_idempotent', err), inv, None
    snaps = [snapshot(b)]
    tr = ref_trace(desc, seq)
    for t, vec in enumerate(seq):
        for w, v in zip(b.inputs, vec):
            w.put(v)
        sim.clk(1)
        err = compare(b, tr[t], 'clk #{}'.format(t + 1))
        if err:
            return ('fixpoint_after_clk', err), inv, None
        if t == len(seq) - 1:
            err = idempotent(b, sim)
            if err:
                return ('not_idempotent', err), inv, None
        snaps.append(snapshot(b))
    return None, inv, snaps


def run_case(case):
    desc = case['desc']
    mode = case['mode']
    tags = ['mode:' + mode]
    if mode in ('cyclic',):
        try:
            comb_order(desc)
            raise HarnessError('cyclic case is not cyclic')
        except CombCycle:
            pass
        try:
            b = build(desc)
        except Exception as e:
            raise HarnessError('builder failed: {!r}'.format(e))
        try:
            b.sys.getSimulator()
        except Exception:
            return ok(True, tags + ['cycle:' + case.get('cycle_kind', '?')])
        return fail('cycle_accepted|' + case.get('cycle_kind', '?'),
                    'a netlist with a combinational cycle ({}) was accepted by getSimulator(); nodes {}'.format(
                        case.get('cycle_kind'), [(k, nd['op'], nd['args']) for k, nd in enumerate(desc['nodes'])][:12]), cls=tags)
    seq = case['inputs']
    results = []
    nt = mode == 'regcut'
    for order in case['orders']:
        d = dict(desc, order=order)
        try:
            err, inv, snaps = run_one(d, seq, late=case.get('late'))
        except HarnessError:
            raise
        except Exception as e:
            es = exception_signature(e)
            if es is None:
                raise
            n_leaves = len(desc['nodes'])
            kind = 'deep' if n_leaves >= 900 else 'small'
            return fail('acyclic_refused|{}|{}'.format(kind, es), 'acyclic netlist ({} nodes, mode {}) raised {!r}'.format(n_leaves, mode, e), cls=tags)
        if inv > 0:
            nt = True
        if err:
            return fail('{}|{}'.format(err[0], mode), err[1] + ' ; order {}'.format(order), cls=tags)
        results.append(snaps)
    for k in range(1, len(results)):
        if results[k] != results[0]:
            return fail('order_dependent|' + mode, 'instantiation orders {} and {} give different wire values'.format(
                case['orders'][0], case['orders'][k]), cls=tags)
    if nt:
        tags.append('sorter_had_to_move_a_leaf')
    return ok(nt, tags)


# ---- generators ----------------------------------------------------------------------------------------------------
def _downstream(desc, a):
    """indices of stateless nodes reachable from node a through stateless nodes"""
    nodes = desc['nodes']
    users = {}
    for k, nd in enumerate(nodes):
        for s in nd['args']:
            if s[0] == 'n':
                users.setdefault(int(s[1:]), []).append(k)
    seen, todo = set(), [a]
    while todo:
        x = todo.pop()
        for u in users.get(x, []):
            if u not in seen and not is_state(nodes[u]):
                seen.add(u)
                todo.append(u)
    return sorted(seen)


@st.composite
def cyclic_variant(draw, base, cut_with_reg=False):
    desc = copy.deepcopy(base)
    nodes = desc['nodes']
    cands = [k for k, nd in enumerate(nodes) if not is_state(nd) and nd['args']]
    if not cands:
        return None
    a = draw(st.sampled_from(cands))
    nd = nodes[a]
    ai = draw(st.integers(0, len(nd['args']) - 1))
    w = sig_w(desc, nd['args'][ai])
    down = _downstream(desc, a)
    kind = draw(st.sampled_from(['self', 'two', 'long', 'long']))
    if kind == 'self' and nd['w'] != w:
        kind = 'two'
    if kind == 'long' and not down:
        kind = 'two'
    if kind == 'self':
        src = 'n%d' % a
    elif kind == 'two':
        src = 'n%d' % a
    else:
        src = 'n%d' % draw(st.sampled_from(down))
    g = nd['g']

    def add(op, args, ww, p=None):
        nodes.append({'op': op, 'args': args, 'w': ww, 'p': p or {}, 'g': g})
        desc['order'].insert(draw(st.integers(0, len(desc['order']))), len(nodes) - 1)
        return 'n%d' % (len(nodes) - 1)
    if cut_with_reg:
        src = add('Reg', [src], sig_w(desc, src), {'en': False, 'rst': False})
    sw = sig_w(desc, src)
    if kind != 'self' or cut_with_reg:
        if sw > w:
            src = add('Range', [src], w, {'high': w - 1, 'low': 0})
        elif sw < w:
            src = add('ZeroExtend', [src], w)
        elif kind == 'two' or cut_with_reg:
            src = add('Buf', [src], w)
    nd['args'][ai] = src
    return desc, kind


def _orders(desc, k):
    n = len(desc['nodes'])
    base = list(range(n))
    # adversarial orders: reverse topological and interleaved, plus random ones
    topo = [x for x in netgen.comb_order(desc)]
    regs = [i for i, nd in enumerate(desc['nodes']) if is_state(nd)]
    rev = list(reversed(topo)) + regs
    inter = topo[::2][::-1] + topo[1::2] + regs
    return st.lists(st.permutations(base), min_size=max(0, k - 2), max_size=max(0, k - 2)).map(
        lambda ps: [rev, inter][:k] + [list(p) for p in ps])


@st.composite
def cases(draw, max_nodes, n_orders, n_cycles):
    mode = draw(st.sampled_from(['acyclic'] * 6 + ['late'] * 2 + ['cyclic'] * 3 + ['regcut'] * 2))
    # a cycle through a leaf that also has clock() is not necessarily combinational (its input may only be read at the
    # edge), so the behavioural dual leaf is only generated in the acyclic modes
    extra = ['Mealy', 'BitSel'] if mode in ('acyclic', 'late') else ['BitSel']
    base = draw(netlists(max_nodes=max_nodes, n_regs=(0, 2), hierarchy=2, max_w=33, ops=netgen.COMB_OPS_BASIC + extra))
    if mode == 'cyclic':
        r = draw(cyclic_variant(base))
        if r is None:
            mode = 'acyclic'
        else:
            return {'mode': 'cyclic', 'desc': r[0], 'cycle_kind': r[1]}
    if mode == 'regcut':
        r = draw(cyclic_variant(base, cut_with_reg=True))
        if r is None:
            mode = 'acyclic'
        else:
            base = r[0]
    orders = draw(_orders(base, n_orders))
    seq = draw(input_vectors(base, n_cycles))
    case = {'mode': mode, 'desc': base, 'orders': orders, 'inputs': seq}
    if mode == 'late':
        case['late'] = draw(st.integers(0, len(base['nodes']) - 1))
        case['orders'] = orders[:1] if False else orders
    return case


# ---- bidirectional pad in input mode (test/interactive/tb_InOut.py shape) -------------------------------------------
def run_pad(case):
    """Sequence -> pad (BidirWire) -> BidirBuf(poe=0) -> pin -> consumers; Buf/Not directly on the pad.  The pad may be
    the only wire that changes at an edge."""
    import py4hw
    w = case['w']
    m = mask(w)
    vals = case['values']
    traces = []
    for order in case['orders']:
        hw = py4hw.HWSystem()
        pad = hw.bidir_wire('pad', w)
        poe, pout, pin = hw.wire('poe', 1), hw.wire('pout', w), hw.wire('pin', w)
        cons = [hw.wire('c%d' % k, w) for k in range(len(case['consumers']))]
        makers = [lambda: py4hw.Sequence(hw, 'ext', list(vals), pad),
                  lambda: py4hw.Constant(hw, 'poe', 0, poe),
                  lambda: py4hw.Constant(hw, 'pout', case['pout'], pout),
                  lambda: py4hw.BidirBuf(hw, 'iobuf', pin, pout, poe, pad)]
        for k, (src, op) in enumerate(case['consumers']):
            srcw = pad if src == 'pad' else (pin if src == 'pin' else cons[src])
            makers.append((lambda k=k, srcw=srcw, op=op: getattr(py4hw, op)(hw, 'cons%d' % k, srcw, cons[k])))
        for i in order:
            makers[i]()
        sim = hw.getSimulator()

        def expect(padv):
            out = {'pin': padv}
            for k, (src, op) in enumerate(case['consumers']):
                x = padv if src in ('pad', 'pin') else out[src]
                out[k] = x if op == 'Buf' else (~x) & m
            return out

        def judge(where, padv):
            if pad.get() != padv:
                return 'pad_value', '{}: the pad holds {} but the Sequence drove {}'.format(where, pad.get(), padv)
            e = expect(padv)
            if pin.get() != e['pin']:
                return 'fixpoint_after_clk', '{}: BidirBuf (poe=0) drives pin={} but the pad holds {}'.format(where, pin.get(), padv)
            for k in range(len(cons)):
                if cons[k].get() != e[k]:
                    return 'fixpoint_after_clk', '{}: consumer {} {} holds {} but its driver computes {} (pad={})'.format(
                        where, k, case['consumers'][k], cons[k].get(), e[k], padv)
            return None
        err = judge('after simulator creation', 0)
        if err:
            return fail('{}|pad'.format(err[0]), err[1] + ' ; order {}'.format(order), cls=['mode:pad'])
        done = 0
        tr = []
        for n in case['steps']:
            sim.clk(n)
            done += n
            padv = vals[(done - 1) % len(vals)] & m
            err = judge('after clk({}) reaching cycle {}'.format(n, done), padv)
            if err:
                return fail('{}|pad'.format(err[0]), err[1] + ' ; order {} values {}'.format(order, vals), cls=['mode:pad'])
            tr.append([c.get() for c in cons])
        traces.append(tr)
    # non-trivial: some edge changes nothing but the pad while the pad value itself changes
    nt = any((vals[i] & m) != (vals[i - 1] & m) for i in range(1, len(vals))) and sum(case['steps']) >= 2
    return ok(nt, ['mode:pad'])


@st.composite
def pad_cases(draw):
    w = draw(st.sampled_from([1, 4, 8]))
    vals = draw(st.lists(st.integers(0, mask(w)), min_size=2, max_size=10))
    nc = draw(st.integers(1, 4))
    consumers = []
    for k in range(nc):
        src = draw(st.sampled_from(['pad', 'pin'] + list(range(k))))
        consumers.append([src, draw(st.sampled_from(['Buf', 'Not']))])
    n = 4 + nc
    orders = [list(range(n)), list(reversed(range(n))), list(draw(st.permutations(list(range(n)))))]
    steps = draw(st.lists(st.sampled_from([1, 1, 2, 3, 5]), min_size=2, max_size=8))
    return {'mode': 'pad', 'w': w, 'values': vals, 'pout': draw(st.integers(0, mask(w))), 'consumers': consumers, 'orders': orders, 'steps': steps}


def chain_case(n, reverse=True, kind='Not'):
    nodes = []
    prev = 'i0'
    for k in range(n):
        nodes.append({'op': kind if k % 3 else 'Buf', 'args': [prev], 'w': 4, 'p': {}, 'g': -1})
        prev = 'n%d' % k
    order = list(range(n))
    if reverse:
        order = order[::-1]
    desc = {'inputs': [{'w': 4}], 'nodes': nodes, 'outputs': [prev], 'order': order, 'groups': []}
    return {'mode': 'acyclic', 'desc': desc, 'orders': [order], 'inputs': [[5], [10]]}


def _chains(tier):
    sizes = [50, 200, 600] if tier == 'quick' else [50, 200, 600, 900, 1100, 1500]
    return [{'n': n} for n in sizes]


def _chain_task(task):
    case = chain_case(task['n'])
    r = run_case(case)
    out = {'evals': 1, 'nt': 1, 'cls': {'deep_chain_n={}'.format(task['n']): 1}, 'fails': [], 'samples': []}
    if r['fail']:
        out['fails'].append({'sig': r['fail']['sig'], 'msg': r['fail']['msg'], 'case': {'chain': task['n']}})
    return out


def shrink_candidates(case):
    if 'chain' in case:
        return
    if case['mode'] == 'cyclic':
        return
    if case['mode'] == 'pad':
        if len(case['orders']) > 1:
            for i in range(len(case['orders'])):
                yield dict(case, orders=case['orders'][:i] + case['orders'][i + 1:])
        for i in range(len(case['steps'])):
            if len(case['steps']) > 1:
                yield dict(case, steps=case['steps'][:i] + case['steps'][i + 1:])
        return
    if len(case['orders']) > 1:
        for i in range(len(case['orders'])):
            yield dict(case, orders=case['orders'][:i] + case['orders'][i + 1:])
    if len(case['inputs']) > 1:
        yield dict(case, inputs=case['inputs'][:1])
        yield dict(case, inputs=case['inputs'][:len(case['inputs']) // 2])


_orig_run_case = run_case


def run_case(case):      # noqa: F811  (replay files of the chain stratum only carry the length)
    if 'chain' in case:
        return _orig_run_case(chain_case(case['chain']))
    if case.get('mode') == 'pad':
        return run_pad(case)
    return _orig_run_case(case)


def strata(tier):
    if tier == 'quick':
        n, mx = 1200, 25
    else:
        n, mx = 20000, 60
    return [
        {'name': 'netlists', 'kind': 'hyp', 'examples': n, 'strategy': lambda: cases(mx, 3, 2), 'run_case': run_case},
        {'name': 'bidirectional_pad', 'kind': 'hyp', 'examples': 150 if tier == 'quick' else 4000, 'strategy': pad_cases, 'run_case': run_case},
        {'name': 'deep_reverse_chains', 'kind': 'enum', 'exhaustive': False, 'tasks': _chains(tier), 'run_task': _chain_task},
    ]

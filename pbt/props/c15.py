"""C15 - waveform capture records exactly what the wires carried, once per cycle.

Reference model: the value every watched signal carries going into each edge is known independently of
Waveform (Sequence value lists, poked values, combinational functions evaluated by the harness).  The
WaveDrom rendering is decoded by an independent reader and must give back the same sequences."""
import py4hw
from hypothesis import strategies as st

from ..bench import mask
from ..runner import ok, fail, discard, HarnessError

PROP = 'C15'
RULE = ('case = (signals: Sequence sources with value lists, poked wires, combinational functions of them; watch list '
        'mixing wires, InPort/OutPort aliases and duplicates; run plan of clk(n), pokes, clear() and intermediate renderings; '
        'the recorder optionally sits in a block with a clock driver object of its own). Non-trivial iff a '
        'watched signal repeats a value for >= 2 consecutive cycles and later changes, and the watch list contains a '
        'duplicate or a port alias. Distinct by JSON hash.')
ASSUMPTIONS = [
    'a Sequence output carries 0 into the first edge and values[(k-1) mod n] into edge k (once=False), written from its documentation',
    'WaveDrom lanes are framed by one lead-in and one lead-out character (x ... x, clock lane P ... x); the body must span the recorded cycles',
    'data labels of multi-bit wires are upper-case hexadecimal ({:X})',
]

OPS = {
    'not': (1, lambda a, w: (~a[0]) & mask(w)),
    'and': (2, lambda a, w: (a[0] & a[1]) & mask(w)),
    'or': (2, lambda a, w: (a[0] | a[1]) & mask(w)),
    'sub': (2, lambda a, w: (a[0] - a[1]) & mask(w)),
    'buf': (1, lambda a, w: a[0] & mask(w)),
}


def decode_lane(lane, width, ncycles, is_clock=False):
    wave = lane.get('wave')
    if not isinstance(wave, str) or len(wave) < 2:
        return None, 'lane without frame: {!r}'.format(wave)
    if is_clock:
        if wave[0] != 'P' or wave[-1] != 'x' or any(ch != '.' for ch in wave[1:-1]):
            return None, 'clock lane {!r}'.format(wave)
        return len(wave) - 2, None
    if wave[0] != 'x' or wave[-1] != 'x':
        return None, 'lane not framed by x: {!r}'.format(wave)
    body = wave[1:-1]
    labels = list(lane.get('data', []))
    li = 0
    vals = []
    for ch in body:
        if ch == '.':
            if not vals:
                return None, 'dot without a previous value in {!r}'.format(wave)
            vals.append(vals[-1])
        elif width == 1 and ch in '01':
            vals.append(int(ch))
        elif width > 1 and ch == '2':
            if li >= len(labels):
                return None, 'missing data label in {!r} {}'.format(wave, labels)
            lab = labels[li]
            li += 1
            if not isinstance(lab, str) or lab != lab.upper() or not lab or any(c not in '0123456789ABCDEF' for c in lab):
                return None, 'data label {!r} is not upper-case hexadecimal'.format(lab)
            vals.append(int(lab, 16))
        else:
            return None, 'unexpected character {!r} for a {}-bit wire in {!r}'.format(ch, width, wave)
    if li != len(labels):
        return None, 'unused data labels {} in {!r}'.format(labels[li:], wave)
    return vals, None


class _Probe(py4hw.Logic):
    def __init__(self, parent, name):
        super().__init__(parent, name)


def check_rendering(case, wf, sigs, expect, flags, when):
    ncycles = len(expect[0]) if expect else 0
    for short in flags:
        wd = wf.get_wavedrom(shortNames=short)
        lanes = wd.get('signal')
        if not isinstance(lanes, list) or len(lanes) != 1 + len(case['watch']):
            return fail('wavedrom|lanes', 'expected {} lanes got {}'.format(1 + len(case['watch']), lanes))
        n, err = decode_lane(lanes[0], 1, ncycles, is_clock=True)
        if err or n != ncycles:
            return fail('wavedrom|clock_lane', 'clock lane {} for {} recorded cycles ({})'.format(lanes[0], ncycles, err))
        for (kind, i), lane in zip(case['watch'], lanes[1:]):
            vals, err = decode_lane(lane, sigs[i]['w'], ncycles)
            if err:
                return fail('wavedrom|format', 'lane for s{} ({} bits): {}'.format(i, sigs[i]['w'], err))
            if vals != expect[i]:
                k = 'span' if len(vals) != len(expect[i]) else 'value'
                return fail('wavedrom|{}{}'.format(k, '' if when == 'final' else '|' + when),
                            'lane for s{} decodes to {} expected {} (lane {}, {} rendering, plan {})'.format(i, vals, expect[i], lane, when, case['plan']))
    return None


def run_case(case):
    sigs = case['signals']
    sysm = py4hw.HWSystem()
    wires = []
    drivers = []
    same_names = bool(case.get('same_names'))
    for i, s in enumerate(sigs):
        if same_names:
            # every signal lives in a block of its own and carries the same local name (names are per block)
            home = _Probe(sysm, 'blk{}'.format(i))
            w = home.wire('sig', s['w'])
        else:
            home = sysm
            w = sysm.wire('s{}'.format(i), s['w'])
        wires.append(w)
        if s['kind'] == 'seq':
            drivers.append(py4hw.Sequence(home, 'seq{}'.format(i), list(s['values']), w))
        elif s['kind'] == 'poke':
            drivers.append(None)
        else:
            args = [wires[j] for j in s['args']]
            ctor = {'not': py4hw.Not, 'and': py4hw.And2, 'or': py4hw.Or2, 'sub': py4hw.Sub, 'buf': py4hw.Buf}[s['op']]
            drivers.append(ctor(home, 'op{}'.format(i), *args, w))
    # a reader for every signal, so that an InPort alias exists
    readers = []
    for i, w in enumerate(wires):
        d = sysm.wire('sink{}'.format(i), w.getWidth())
        readers.append(py4hw.Buf(sysm, 'rd{}'.format(i), w, d))
    watch = []
    for kind, i in case['watch']:
        if kind == 'wire':
            watch.append(wires[i])
        elif kind == 'in':
            watch.append(readers[i].inPorts[0])
        else:
            drv = drivers[i]
            watch.append(drv.outPorts[0] if drv is not None else wires[i])
    if case.get('late_recorder'):
        sysm.getSimulator()        # the simulator exists before the recorder is attached (and is refreshed afterwards)
    if case.get('wf_block'):
        # the recorder lives in a block with a clock driver object of its own (not gated), created after the sources
        blk = _Probe(sysm, 'probe')
        blk.clockDriver = py4hw.ClockDriver('probeclk', base=sysm.clockDriver)
        wf = py4hw.Waveform(blk, 'wf', watch)
    else:
        wf = py4hw.Waveform(sysm, 'wf', watch)
    sim = sysm.getSimulator()

    # reference: value carried into each edge
    poked = {i: 0 for i, s in enumerate(sigs) if s['kind'] == 'poke'}
    rendered_mid = False
    edge = 0
    expect = {i: [] for i in range(len(sigs))}

    def current(i, memo):
        if i in memo:
            return memo[i]
        s = sigs[i]
        if s['kind'] == 'seq':
            v = 0 if edge == 0 else s['values'][(edge - 1) % len(s['values'])] & mask(s['w'])
        elif s['kind'] == 'poke':
            v = poked[i]
        else:
            v = OPS[s['op']][1]([current(j, memo) for j in s['args']], s['w'])
        memo[i] = v
        return v

    for step in case['plan']:
        if step[0] == 'poke':
            i = step[1]
            if sigs[i]['kind'] != 'poke':
                continue
            poked[i] = step[2] & mask(sigs[i]['w'])
            wires[i].put(step[2])
        elif step[0] == 'render':
            # the rendering is requested in the middle of the plan as well (one flag, so that the other flag is first
            # requested later): it must show what was recorded so far
            r = check_rendering(case, wf, sigs, expect, (bool(step[1]),), 'intermediate')
            if r:
                return r
            rendered_mid = True
        elif step[0] == 'clear':
            wf.clear()
            for k in expect:
                expect[k] = []
        else:
            n = step[1]
            for _ in range(n):
                memo = {}
                for k in range(len(sigs)):
                    expect[k].append(current(k, memo))
                edge += 1
            sim.clk(n)
    ncycles = len(expect[0]) if expect else 0
    tags = []
    d = wf.getDict()
    uniq = []
    for kind, i in case['watch']:
        if i not in uniq:
            uniq.append(i)
    if len(d) != len(uniq):
        return fail('getDict|keys', 'getDict has {} entries for {} distinct wires'.format(len(d), len(uniq)))
    for i in uniq:
        got = d.get(wires[i])
        if got is None:
            return fail('getDict|missing_wire', 'no samples for watched wire s{}'.format(i))
        if list(got) != expect[i]:
            kind = 'count' if len(got) != len(expect[i]) else 'value'
            return fail('getDict|' + kind, 'wire s{} ({}) recorded {} expected {} ; plan {}'.format(i, sigs[i], list(got), expect[i], case['plan']))
    r = check_rendering(case, wf, sigs, expect, (False, True), 'final')
    if r:
        return r
    watched = [i for _, i in case['watch']]
    rep = False
    for i in set(watched):
        e = expect[i]
        for k in range(1, len(e) - 1):
            if e[k] == e[k - 1] and any(x != e[k] for x in e[k + 1:]):
                rep = True
    alias = len(watched) != len(set(watched)) or any(k != 'wire' for k, _ in case['watch'])
    if alias:
        tags.append('alias_or_duplicate')
    if ncycles == 0:
        tags.append('zero_cycles')
    if any(s[0] == 'clear' for s in case['plan']):
        tags.append('clear')
    if rendered_mid:
        tags.append('rendered_mid_plan')
    if case.get('wf_block'):
        tags.append('recorder_in_own_clock_domain')
    if same_names:
        tags.append('watched_wires_share_a_local_name')
    if case.get('late_recorder'):
        tags.append('recorder_attached_after_first_getSimulator')
    return ok(rep and alias, tags, info={'cycles': ncycles})


def case_strategy():
    from ..cat_arith import value_st

    def signals(n):
        def sig(i):
            w = st.sampled_from([1, 1, 2, 4, 8, 13])
            seq = w.flatmap(lambda ww: st.fixed_dictionaries({
                'kind': st.just('seq'), 'w': st.just(ww),
                'values': st.lists(st.one_of(st.integers(0, min(mask(ww), 2)), value_st(ww)), min_size=1, max_size=7)}))
            poke = w.map(lambda ww: {'kind': 'poke', 'w': ww})
            if i == 0:
                return st.one_of(seq, poke)
            comb = st.tuples(st.sampled_from(['not', 'and', 'or', 'sub', 'buf']), st.integers(0, i - 1), st.integers(0, i - 1), w).map(
                lambda t: {'kind': 'comb', 'op': t[0], 'args': [t[1]] if OPS[t[0]][0] == 1 else [t[1], t[2]], 'w': t[3]})
            return st.one_of(seq, poke, comb)
        return st.tuples(*[sig(i) for i in range(n)]).map(list)

    def plan(sigs):
        pk = [i for i, s in enumerate(sigs) if s['kind'] == 'poke']
        kinds = ['clk'] * 7 + (['poke'] * 4 if pk else []) + ['clear', 'render', 'render']

        def step(kind):
            if kind == 'clk':
                return st.sampled_from([1, 1, 1, 2, 3, 7]).map(lambda n: ['clk', n])
            if kind == 'poke':
                return st.tuples(st.sampled_from(pk), st.one_of(st.integers(0, 1), st.integers(0, 300))).map(lambda t: ['poke', t[0], t[1]])
            if kind == 'render':
                return st.integers(0, 1).map(lambda f: ['render', f])
            return st.just(['clear'])
        one = st.sampled_from(kinds).flatmap(step)
        return st.sampled_from([0, 1, 2, 4, 6, 8, 10, 12, 16, 20, 30]).flatmap(lambda n: st.lists(one, min_size=n, max_size=n))

    def watch(n):
        return st.lists(st.tuples(st.sampled_from(['wire', 'wire', 'in', 'out']), st.integers(0, n - 1)).map(list), min_size=1, max_size=6)

    return st.integers(1, 5).flatmap(lambda n: signals(n).flatmap(
        lambda sg: st.fixed_dictionaries({'signals': st.just(sg), 'watch': watch(n), 'plan': plan(sg), 'wf_block': st.sampled_from([False, False, True]),
                                          'same_names': st.sampled_from([False, False, True]), 'late_recorder': st.sampled_from([False, False, True])})))


@st.composite
def two_run_cases(draw):
    """record n cycles, render, clear(), record n cycles again, render: periodic sources whose period divides n make the
    second recording end on the same values as the first while it differs earlier (the first one starts from power-up)"""
    n = draw(st.sampled_from([2, 3, 4, 6, 8, 12]))
    divs = [d for d in range(1, 8) if n % d == 0]
    sigs = []
    for i in range(draw(st.integers(1, 3))):
        w = draw(st.sampled_from([1, 2, 4, 8]))
        L = draw(st.sampled_from(divs))
        vals = [draw(st.integers(0, mask(w))) for _ in range(L)]
        if draw(st.booleans()):
            vals[-1] = draw(st.integers(1, mask(w)))
        sigs.append({'kind': 'seq', 'w': w, 'values': vals})
    if draw(st.booleans()):
        sigs.append({'kind': 'comb', 'op': draw(st.sampled_from(['not', 'buf'])), 'args': [0], 'w': sigs[0]['w']})
    watch = draw(st.lists(st.tuples(st.sampled_from(['wire', 'wire', 'in', 'out']), st.integers(0, len(sigs) - 1)).map(list), min_size=1, max_size=4))
    f = draw(st.integers(0, 1))
    plan = [['clk', n], ['render', f], ['clear'], ['clk', n]]
    if draw(st.integers(0, 3)) == 0:
        plan += [['render', f], ['clear'], ['clk', n]]
    return {'signals': sigs, 'watch': watch, 'plan': plan, 'wf_block': False}


def shrink_candidates(case):
    p = case['plan']
    for i in range(len(p)):
        yield dict(case, plan=p[:i] + p[i + 1:])
    wt = case['watch']
    for i in range(len(wt)):
        if len(wt) > 1:
            yield dict(case, watch=wt[:i] + wt[i + 1:])
    for i, s in enumerate(p):
        if s[0] == 'clk' and s[1] > 1:
            yield dict(case, plan=p[:i] + [['clk', s[1] - 1]] + p[i + 1:])


def strata(tier):
    n = 1500 if tier == 'quick' else 40000
    return [{'name': 'recordings', 'kind': 'hyp', 'examples': n, 'strategy': case_strategy, 'run_case': run_case},
            {'name': 'record_render_clear_record', 'kind': 'hyp', 'examples': n // 5, 'strategy': two_run_cases, 'run_case': run_case}]

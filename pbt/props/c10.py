"""C10 - a clock domain advances exactly when its enable is active."""
import copy

import py4hw
from hypothesis import strategies as st

from .. import netgen
from ..netgen import netlists, ref_trace, build, is_state, group_enable_sig, node_enable_sig
from ..bench import mask
from ..runner import ok, fail, discard, HarnessError

PROP = 'C10'
RULE = ('case = (register netlist partitioned into nested wrapper groups, some of which carry a ClockDriver with an '
        'enable wire driven by an input, by logic, or by a register inside the gated domain itself; input sequence with '
        'long gaps, single-cycle pulses and always-on enables; optionally all driver objects share one name, optionally the '
        'drivers are attached after the simulator was first obtained). Non-trivial iff at some edge a domain was disabled and a '
        'register in it would have changed under the ungated rule (so holding is observable), and at another edge an '
        'enabled gated register did change. Distinct by JSON hash.')
ASSUMPTIONS = [
    'the enable is sampled before the edge (value of the enable wire when clk() is called, after settling)',
    'blocks inherit the nearest ancestor\'s clock driver; the reference resolves it on the description, not through py4hw',
    'registers power up with output 0; reset values are covered by C09',
]


def ungated_next(desc, pre, k, cur):
    nd = desc['nodes'][k]
    args = nd['args']
    d = pre[args[0]]
    j = 1
    en, rst = 1, 0
    if nd['p'].get('en'):
        en = pre[args[j]]
        j += 1
    if nd['p'].get('rst'):
        rst = pre[args[j]]
    if rst == 1:
        return 0
    if en:
        return d
    return cur


def run_case(case):
    desc = case['desc']
    seq = case['inputs']
    tags = []
    b = build(desc)
    sim = b.sys.getSimulator()
    ref = ref_trace(desc, seq)
    order = netgen.comb_order(desc)
    regs = netgen.reg_init(desc)
    gated = {k for k in regs if node_enable_sig(desc, k) is not None}
    held_observable = False
    advanced = False
    n_domains = len({node_enable_sig(desc, k) for k in regs})
    tags.append('domains={}'.format(min(n_domains, 3)))
    if desc.get('clock_names') == 'shared':
        tags.append('drivers_share_one_name')
    if desc.get('late_clocks'):
        tags.append('drivers_attached_after_first_getSimulator')
    if desc.get('base_chain'):
        tags.append('gated_driver_based_on_gated_driver')
    chunked = bool(case.get('chunked'))
    for t, vec in enumerate(seq):
        for w, v in zip(b.inputs, vec):
            w.put(v)
        pre = netgen.ref_settle(desc, order, vec, regs)
        # with 'chunked' a run of equal input vectors is advanced by a single clk(n) call (the enables may still
        # change from edge to edge inside the call when they are derived from registers)
        if chunked:
            run = 1
            while t + run < len(seq) and seq[t + run] == vec:
                run += 1
            if t > 0 and seq[t - 1] == vec:
                pass                      # already advanced by the call made at the start of the run
            else:
                sim.clk(run)
                last_of_run = t + run - 1
            compare_now = (t == last_of_run)
        else:
            sim.clk(1)
            compare_now = True
        for s, w in (b.wire.items() if compare_now else ()):
            if ref[t][s] is not None and w.get() != ref[t][s]:
                k = int(s[1:]) if s[0] == 'n' else None
                kind = 'other'
                if k is not None and is_state(desc['nodes'][k]):
                    en_sig = node_enable_sig(desc, k)
                    if en_sig is None:
                        kind = 'ungated_register'
                    elif pre[en_sig] == 0:
                        kind = 'gated_register_advanced_while_disabled'
                    else:
                        kind = 'gated_register_wrong_while_enabled'
                return fail('domain|' + kind, 'cycle {}: wire {} is {} expected {} (inputs {}, enables {})'.format(
                    t, s, w.get(), ref[t][s], vec, {g: pre[e['enable']] for g, e in enumerate(desc['groups']) if e.get('enable')}), cls=tags)
        for k in gated:
            en_sig = node_enable_sig(desc, k)
            if pre[en_sig] is None:
                continue
            if desc['nodes'][k]['op'] != 'Reg':
                if pre[en_sig] != 0 and ref[t]['n%d' % k] != regs[k]:
                    advanced = True
                continue
            nxt = ungated_next(desc, pre, k, regs[k])
            if pre[en_sig] == 0 and nxt is not None and nxt != regs[k]:
                held_observable = True
            if pre[en_sig] != 0 and ref[t]['n%d' % k] != regs[k]:
                advanced = True
        regs = {k: ref[t]['n%d' % k] for k in regs}
    # metamorphic: enables tied to 1 == the ungated design
    if case.get('tie'):
        d1 = copy.deepcopy(desc)
        d1['nodes'].append({'op': 'Constant', 'args': [], 'w': 1, 'p': {'v': 1}, 'g': -1})
        d1['order'] = d1['order'] + [len(d1['nodes']) - 1]
        one = 'n%d' % (len(d1['nodes']) - 1)
        for g in d1['groups']:
            if g.get('enable') is not None:
                g['enable'] = one
        for nd in d1['nodes']:
            if nd['p'].get('cen') is not None:
                nd['p']['cen'] = one
        d0 = copy.deepcopy(desc)
        for g in d0['groups']:
            g['enable'] = None
        for nd in d0['nodes']:
            nd['p'].pop('cen', None)
        b1, b0 = build(d1), build(d0)
        s1, s0 = b1.sys.getSimulator(), b0.sys.getSimulator()
        for t, vec in enumerate(seq):
            for bb in (b1, b0):
                for w, v in zip(bb.inputs, vec):
                    w.put(v)
            s1.clk(1)
            s0.clk(1)
            for s in b0.wire:
                if b0.wire[s].get() != b1.wire[s].get():
                    return fail('tied_enable_differs', 'cycle {}: with every enable tied to 1 wire {} is {} but the ungated design gives {}'.format(
                        t, s, b1.wire[s].get(), b0.wire[s].get()), cls=tags)
        tags.append('tied_enable_metamorphic')
    nt = held_observable and advanced
    if held_observable:
        tags.append('hold_observable')
    return ok(nt, tags)


@st.composite
def cases(draw, max_nodes, n_cycles):
    desc = draw(netlists(max_nodes=max_nodes, min_nodes=2, n_regs=(2, 6), n_mems=(0, 1), hierarchy=3, domains=True, max_w=16,
                         widths=[1, 1, 2, 4, 8],
                         ops=['And2', 'Or2', 'Xor2', 'Not', 'Add', 'Sub', 'Mux2', 'Constant', 'Range', 'Bit', 'ZeroExtend', 'Buf', 'Equal']))
    regs = [k for k, nd in enumerate(desc['nodes']) if nd['op'] == 'Reg']
    # make sure at least one group is gated and holds a register; sometimes gate by a register of the domain itself
    if not desc['groups']:
        desc['groups'] = [{'parent': -1, 'enable': None}]
    if desc['groups'] and regs:
        g = draw(st.integers(0, len(desc['groups']) - 1))
        if desc['groups'][g].get('enable') is None:
            desc['groups'][g]['enable'] = 'i0'
        for k in draw(st.lists(st.sampled_from(regs), min_size=1, max_size=3, unique=True)):
            desc['nodes'][k]['g'] = g
            # a gated register fed by a live signal (an input of its width, when there is one), always enabled locally
            live = ['i%d' % j for j, i in enumerate(desc['inputs']) if i['w'] == desc['nodes'][k]['w'] and j > 0]
            if live and draw(st.booleans()):
                desc['nodes'][k]['args'] = [draw(st.sampled_from(live))]
                desc['nodes'][k]['p'] = {'en': False, 'rst': False}
        one_bit_regs = [r for r in regs if desc['nodes'][r]['w'] == 1]
        if one_bit_regs and draw(st.integers(0, 3)) == 0:
            r = draw(st.sampled_from(one_bit_regs))
            desc['nodes'][r]['g'] = g
            desc['groups'][g]['enable'] = 'n%d' % r      # enable derived from a register inside the gated domain
    # a clock driver attached to a leaf register that has clockable siblings under the same parent
    if regs and draw(st.integers(0, 2)) == 0:
        k = draw(st.sampled_from(regs))
        one_bit = ['i0'] + ['n%d' % r for r in regs if desc['nodes'][r]['w'] == 1 and r != k]
        desc['nodes'][k]['p']['cen'] = draw(st.sampled_from(one_bit))
        sib = [r for r in regs if r != k]
        if sib:
            desc['nodes'][draw(st.sampled_from(sib))]['g'] = desc['nodes'][k]['g']
    # an enable that toggles on its own (register fed by its complement), so that it changes inside clk(n)
    if desc['groups'] and draw(st.booleans()):
        nodes = desc['nodes']
        r = len(nodes)
        nodes.append({'op': 'Reg', 'args': ['n%d' % (r + 1)], 'w': 1, 'p': {'en': False, 'rst': False}, 'g': -1})
        nodes.append({'op': 'Not', 'args': ['n%d' % r], 'w': 1, 'p': {}, 'g': -1})
        desc['order'] = desc['order'] + [r, r + 1]
        g = draw(st.integers(0, len(desc['groups']) - 1))
        desc['groups'][g]['enable'] = 'n%d' % r
    from ..cat_arith import value_st
    n = draw(st.integers(3, n_cycles))
    # enable input pattern: gaps, pulses, always on
    pat = draw(st.sampled_from(['random', 'pulses', 'gaps', 'on']))
    seq = []
    for t in range(n):
        vec = [draw(value_st(i['w'])) for i in desc['inputs']]
        if pat == 'pulses':
            vec[0] = 1 if draw(st.integers(0, 4)) == 0 else 0
        elif pat == 'gaps':
            vec[0] = 0 if draw(st.integers(0, 4)) == 0 else 1
        elif pat == 'on':
            vec[0] = 1
        seq.append(vec)
    chunked = draw(st.booleans())
    if chunked:
        # hold every vector for 1..4 cycles
        seq = [v for v in seq for _ in range(draw(st.integers(1, 4)))][:3 * n_cycles]
    # an enable that is the output of a register read by nothing else (the wire has no reader port at all: only the
    # clock driver looks at it), the register itself living in the ungated part of the design
    if desc['groups'] and draw(st.integers(0, 2)) == 0:
        nodes = desc['nodes']
        r = len(nodes)
        nodes.append({'op': 'Reg', 'args': ['i0'], 'w': 1, 'p': {'en': False, 'rst': False}, 'g': -1})
        desc['order'] = [r] + desc['order'] if draw(st.booleans()) else desc['order'] + [r]
        gated = [gi for gi, g in enumerate(desc['groups']) if g.get('enable') is not None] or [0]
        desc['groups'][draw(st.sampled_from(gated))]['enable'] = 'n%d' % r
    if draw(st.integers(0, 2)) == 0:
        desc['base_chain'] = True
        # make sure a nested pair of gated groups exists when the hierarchy allows it
        for gi, g in enumerate(desc['groups']):
            if g['parent'] != -1 and g.get('enable') is None and desc['groups'][g['parent']].get('enable') is not None:
                g['enable'] = 'i0'
    if draw(st.integers(0, 2)) == 0:
        desc['clock_names'] = 'shared'
    if draw(st.integers(0, 3)) == 0:
        desc['late_clocks'] = True
    return {'desc': desc, 'inputs': seq, 'tie': draw(st.integers(0, 3)) == 0, 'chunked': chunked}


def shrink_candidates(case):
    s = case['inputs']
    for i in range(len(s)):
        if len(s) > 1:
            yield dict(case, inputs=s[:i] + s[i + 1:])
    if case.get('tie'):
        yield dict(case, tie=False)


def strata(tier):
    n, mx, cyc = (600, 14, 30) if tier == 'quick' else (10000, 30, 100)
    return [{'name': 'gated_netlists', 'kind': 'hyp', 'examples': n, 'strategy': lambda: cases(mx, cyc), 'run_case': run_case}]

"""C12 - number-format helpers are bit-exact and arithmetically exact.

Oracles: struct ('e', 'f', 'd') for IEEE-754 encodings, fractions.Fraction for FPNum arithmetic,
plain modular integer arithmetic for two's complement and the FixedPoint helper."""
import math
import struct
from fractions import Fraction

from hypothesis import strategies as st

from py4hw.helper import FPNum, FloatingPointHelper, IntegerHelper, FixedPoint
import py4hw.helper as H

from ..runner import ok, fail, discard, HarnessError
from ..bench import mask, to_signed

PROP = 'C12'
RULE = ('case = one helper call on one value: half precision is enumerated completely (2^16 patterns, every '
        'direction of conversion); single/double precision are enumerated on a sign x exponent x mantissa-boundary '
        'grid and sampled with Hypothesis; two\'s complement, FPNum arithmetic and FixedPoint are sampled with '
        'boundary-biased operands. Non-trivial iff the value is a signed zero, subnormal, power-of-two boundary, '
        'largest finite, or infinity (conversions), the operands differ in sign/exponent (FPNum arithmetic), or an '
        'operand is negative / the result wraps (two\'s complement, FixedPoint). Distinct by JSON hash / by construction.')
ASSUMPTIONS = [
    'the platform struct module implements IEEE-754 binary16/32/64 (CPython on x86-64)',
    'NaN patterns are only required to decode to a NaN and NaN to encode to some NaN pattern (payloads excepted)',
    'float -> narrower-format conversions are only judged on values exactly representable in the target format',
    'FPNum.div and FPNum.sqrt are not claimed exact by the property and are not judged',
]

FMT = {
    'hp': dict(bits=16, eb=5, mb=10, st='e', bias=15),
    'sp': dict(bits=32, eb=8, mb=23, st='f', bias=127),
    'dp': dict(bits=64, eb=11, mb=52, st='d', bias=1023),
}
_INT = {16: 'H', 32: 'I', 64: 'Q'}


def bits_to_float(b, fmt):
    f = FMT[fmt]
    return struct.unpack('>' + f['st'], struct.pack('>' + _INT[f['bits']], b))[0]


def float_to_bits(x, fmt):
    """platform encoding; None when x is not exactly representable in fmt"""
    f = FMT[fmt]
    try:
        raw = struct.pack('>' + f['st'], x)
    except OverflowError:
        return None
    b = struct.unpack('>' + _INT[f['bits']], raw)[0]
    back = struct.unpack('>' + f['st'], raw)[0]
    if math.isnan(x):
        return b
    if back != x or math.copysign(1, back) != math.copysign(1, x):
        return None
    return b


def same_float(a, b):
    if math.isnan(a) or math.isnan(b):
        return math.isnan(a) and math.isnan(b)
    return a == b and math.copysign(1, a) == math.copysign(1, b)


def vclass(b, fmt):
    f = FMT[fmt]
    e = (b >> f['mb']) & mask(f['eb'])
    m = b & mask(f['mb'])
    if e == mask(f['eb']):
        return 'inf' if m == 0 else 'nan'
    if e == 0:
        return 'zero' if m == 0 else 'subnormal'
    if m == 0:
        return 'pow2'
    if e == mask(f['eb']) - 1 and m == mask(f['mb']):
        return 'maxfinite'
    return 'normal'


def is_nan_bits(b, fmt):
    return vclass(b, fmt) == 'nan'


def fpnum_fraction(n):
    """value denoted by a finite FPNum: s * 2^e * m / p"""
    if n.infinity or n.nan or n.p == 0:
        return None
    return Fraction(n.s) * (Fraction(2) ** n.e) * Fraction(n.m, n.p)


def float_fraction(x):
    return Fraction(x)


# ------------------------------------------------------------------------------------------------
def _dec_fns(fmt, finite):
    """decoders bits -> python float under test.  The *_parts_to_* functions are documented as
    r = (-1)^s * 2^e * m, i.e. for finite parts only (ieee754_to_sp/dp handle inf/NaN before calling them)."""
    fns = {'FPNum.to_float': lambda b: FPNum(b, fmt).to_float()}
    if fmt == 'sp':
        fns['ieee754_to_sp'] = FloatingPointHelper.ieee754_to_sp
        if finite:
            fns['ieee754_parts_to_sp'] = lambda b: FloatingPointHelper.ieee754_parts_to_sp(
                *FloatingPointHelper.unpack_ieee754_sp_parts(b))
    if fmt == 'dp':
        fns['ieee754_to_dp'] = FloatingPointHelper.ieee754_to_dp
        if finite:
            fns['ieee754_parts_to_dp'] = lambda b: FloatingPointHelper.ieee754_parts_to_dp(
                *FloatingPointHelper.unpack_ieee754_dp_parts(b))
    return fns


def _enc_fns(fmt):
    """encoders python float -> bits under test"""
    fns = {'FPNum(float).convert': lambda x: FPNum(x).convert(fmt)}
    if fmt == 'sp':
        fns['sp_to_ieee754'] = FloatingPointHelper.sp_to_ieee754
        fns['sp_to_ieee754_parts'] = lambda x: FloatingPointHelper.pack_ieee754_sp_parts(
            *FloatingPointHelper.sp_to_ieee754_parts(x))
    if fmt == 'dp':
        fns['dp_to_ieee754'] = FloatingPointHelper.dp_to_ieee754
    return fns


def check_pattern(fmt, b):
    """all conversion directions for one bit pattern of one format; returns (cls, failure or None)"""
    cl = vclass(b, fmt)
    x = bits_to_float(b, fmt)
    tag = fmt + ':' + cl
    # decode
    for name, fn in _dec_fns(fmt, cl not in ('inf', 'nan')).items():
        try:
            got = fn(b)
        except Exception as e:
            return tag, ('{}|{}|{}|exc:{}'.format(name, fmt, cl, type(e).__name__), '{}(0x{:X}) raised {!r}'.format(name, b, e))
        if not isinstance(got, float) or not same_float(got, x):
            return tag, ('{}|{}|{}'.format(name, fmt, cl), '{}(0x{:X}) = {!r}, platform says {!r}'.format(name, b, got, x))
    # bits -> FPNum -> bits in the same and in every wider format
    widths = ['hp', 'sp', 'dp']
    for tgt in widths[widths.index(fmt):]:
        name = 'FPNum(bits).convert'
        try:
            got = FPNum(b, fmt).convert(tgt)
        except Exception as e:
            return tag, ('{}|{}->{}|{}|exc:{}'.format(name, fmt, tgt, cl, type(e).__name__),
                         'FPNum(0x{:X},{}).convert({}) raised {!r}'.format(b, fmt, tgt, e))
        if cl == 'nan':
            if not is_nan_bits(got, tgt):
                return tag, ('{}|{}->{}|nan'.format(name, fmt, tgt), 'NaN 0x{:X} converted to non-NaN 0x{:X}'.format(b, got))
        else:
            exp = float_to_bits(x, tgt)
            if got != exp:
                return tag, ('{}|{}->{}|{}'.format(name, fmt, tgt, cl),
                             'FPNum(0x{:X},{}).convert({}) = 0x{:X}, platform encoding 0x{:X}'.format(b, fmt, tgt, got, exp))
    # narrowing conversions on values exactly representable in the target
    for tgt in widths[:widths.index(fmt)]:
        if cl == 'nan':
            continue
        exp = float_to_bits(x, tgt)
        if exp is None:
            continue
        try:
            got = FPNum(b, fmt).convert(tgt)
        except Exception as e:
            return tag, ('FPNum(bits).convert|{}->{}|{}|exc:{}'.format(fmt, tgt, cl, type(e).__name__),
                         'FPNum(0x{:X},{}).convert({}) raised {!r}'.format(b, fmt, tgt, e))
        if got != exp:
            return tag, ('FPNum(bits).convert|{}->{}|{}'.format(fmt, tgt, vclass(exp, tgt)),
                         'FPNum(0x{:X},{}).convert({}) = 0x{:X}, platform encoding 0x{:X}'.format(b, fmt, tgt, got, exp))
    # encode (python float -> bits)
    for name, fn in _enc_fns(fmt).items():
        try:
            got = fn(x)
        except Exception as e:
            return tag, ('{}|{}|{}|exc:{}'.format(name, fmt, cl, type(e).__name__), '{}({!r}) raised {!r}'.format(name, x, e))
        if cl == 'nan':
            if not is_nan_bits(got, fmt):
                return tag, ('{}|{}|nan'.format(name, fmt), '{}(nan) = 0x{:X} is not a NaN pattern'.format(name, got))
        elif got != b:
            return tag, ('{}|{}|{}'.format(name, fmt, cl), '{}({!r}) = 0x{:X}, platform encoding 0x{:X}'.format(name, x, got, b))
    # pack / unpack round trip
    if fmt == 'sp':
        if FloatingPointHelper.pack_ieee754_sp_parts(*FloatingPointHelper.unpack_ieee754_sp_parts(b)) != b:
            return tag, ('pack_unpack|sp', 'pack(unpack(0x{:X})) differs'.format(b))
    up = {'hp': (FPNum.unpack_ieee754_hp_parts, FPNum.pack_ieee754_hp_parts),
          'sp': (FPNum.unpack_ieee754_sp_parts, FPNum.pack_ieee754_sp_parts),
          'dp': (FPNum.unpack_ieee754_dp_parts, FPNum.pack_ieee754_dp_parts)}[fmt]
    s, e, m = up[0](b)
    f = FMT[fmt]
    if (s, e, m) != (b >> (f['bits'] - 1), (b >> f['mb']) & mask(f['eb']), b & mask(f['mb'])) or up[1](s, e, m) != b:
        return tag, ('FPNum.pack_unpack|' + fmt, 'unpack/pack of 0x{:X} wrong: {}'.format(b, (s, e, m)))
    return tag, None


def grid(fmt, dense):
    f = FMT[fmt]
    mb, eb = f['mb'], f['eb']
    mpat = {0, 1, 2, 3, mask(mb), mask(mb) - 1, 1 << (mb - 1), (1 << (mb - 1)) - 1, (1 << (mb - 1)) + 1,
            int('01' * (mb // 2 + 1), 2) & mask(mb), int('10' * (mb // 2 + 1), 2) & mask(mb)}
    for k in range(mb):
        mpat.add(1 << k)
        if dense:
            mpat.add(mask(mb) ^ (1 << k))
            mpat.add(mask(k + 1))
            mpat.add(mask(mb) ^ mask(k))
    exps = range(1 << eb) if (dense or eb <= 8) else sorted(
        set(list(range(0, 40)) + list(range((1 << eb) - 40, 1 << eb)) + list(range(f['bias'] - 80, f['bias'] + 80)) +
            list(range(0, 1 << eb, 7))))
    for s in (0, 1):
        for e in exps:
            for m in sorted(mpat):
                yield (s << (f['bits'] - 1)) | (e << mb) | m


# ------------------------------------------------------------------------------------------------
def _res(tag, f, nt):
    if f:
        return fail(f[0], f[1], cls=[tag])
    return ok(nt, [tag])


NT_CLASSES = ('zero', 'subnormal', 'pow2', 'maxfinite', 'inf')


def run_case(case):
    k = case['kind']
    if k == 'pattern':
        tag, f = check_pattern(case['fmt'], case['bits'])
        return _res(tag, f, tag.split(':')[1] in NT_CLASSES)
    if k == 'c2':
        return _c2(case)
    if k == 'fpnum_arith':
        return _arith(case)
    if k == 'fixedpoint':
        return _fixed(case)
    if k == 'fpnum_chain':
        return _chain(case)
    raise HarnessError('unknown kind ' + str(k))


def _c2(case):
    w, nw, v = case['w'], case['nw'], case['v']
    sv = to_signed(v, w)
    tag = 'c2'
    got = IntegerHelper.signed_to_c2(sv, w)
    if got != (sv % (1 << w)):
        return fail('signed_to_c2', 'signed_to_c2({}, {}) = {} expected {}'.format(sv, w, got, sv % (1 << w)), cls=[tag])
    got = IntegerHelper.c2_to_signed(v & mask(w), w)
    if got != sv:
        return fail('c2_to_signed', 'c2_to_signed({}, {}) = {} expected {}'.format(v & mask(w), w, got, sv), cls=[tag])
    if IntegerHelper.c2_to_signed(IntegerHelper.signed_to_c2(sv, w), w) != sv:
        return fail('c2_roundtrip', 'round trip of {} at width {}'.format(sv, w), cls=[tag])
    if nw >= w:
        got = H.signExtend(v & mask(w), w, nw)
        if got != sv % (1 << nw):
            return fail('signExtend', 'signExtend({}, {}, {}) = {} expected {}'.format(v & mask(w), w, nw, got, sv % (1 << nw)), cls=[tag])
    if IntegerHelper.sign(sv) != (-1 if sv < 0 else 1):
        return fail('sign', 'IntegerHelper.sign({})'.format(sv), cls=[tag])
    return ok(sv < 0 or v & mask(w) in (mask(w), 1 << (w - 1)), [tag])


def _mk(d):
    """build a finite FPNum from a description: ['f', float] | ['b', bits, fmt] | ['semp', s, e, m, p]"""
    if d[0] == 'f':
        return FPNum(float(d[1]))
    if d[0] == 'b':
        return FPNum(d[1], d[2])
    return FPNum(d[1], d[2], d[3], d[4])


def _ref_value(d):
    if d[0] == 'f':
        return Fraction(float(d[1]))
    if d[0] == 'b':
        return Fraction(bits_to_float(d[1], d[2]))
    return Fraction(d[1]) * Fraction(2) ** d[2] * Fraction(d[3], d[4])


def _arith(case):
    tag = 'fpnum:' + case['op']
    try:
        a, b = _mk(case['a']), _mk(case['b'])
    except Exception as e:
        return fail('FPNum.construct|exc:' + type(e).__name__, 'constructing {} / {} raised {!r}'.format(case['a'], case['b'], e), cls=[tag])
    va, vb = _ref_value(case['a']), _ref_value(case['b'])
    fa, fb = fpnum_fraction(a), fpnum_fraction(b)
    if fa != va or fb != vb:
        return fail('FPNum.value', 'FPNum built from {} denotes {} instead of {}'.format(
            case['a'] if fa != va else case['b'], fa if fa != va else fb, va if fa != va else vb), cls=[tag])
    op = case['op']
    nt = (va < 0) != (vb < 0) or a.e != b.e
    try:
        if op == 'compare':
            got = a.compare(b)
            exp = (va > vb) - (va < vb)
            if got != exp:
                zz = 'signed_zeros' if va == 0 and vb == 0 else 'order'
                return fail('FPNum.compare|' + zz, 'compare({}, {}) = {} expected {}'.format(case['a'], case['b'], got, exp), cls=[tag])
            return ok(nt, [tag])
        if op in ('neg', 'abs', 'div2'):
            if op == 'neg':
                r, exp = a.neg(), -va
            elif op == 'abs':
                r, exp = a.abs(), abs(va)
            else:
                n = case['n']
                r, exp = a.div2(n), va / (2 ** n)
        else:
            r = {'add': a.add, 'sub': a.sub, 'mul': a.mul}[op](b)
            exp = {'add': va + vb, 'sub': va - vb, 'mul': va * vb}[op]
    except Exception as e:
        return fail('FPNum.{}|exc:{}'.format(op, type(e).__name__), '{} of {} and {} raised {!r}'.format(op, case['a'], case['b'], e), cls=[tag])
    got = fpnum_fraction(r)
    if got != exp:
        return fail('FPNum.' + op, '{}({}, {}) denotes {} expected {}'.format(op, case['a'], case['b'], got, exp), cls=[tag])
    bad = _check_result_encoding(r, exp, '{}({}, {})'.format(op, case['a'], case['b']), tag)
    if bad:
        return bad
    # the operands are values: after taking part in an operation they still denote the same rational and still convert
    # back to the bit pattern they were built from
    for nm, obj, d, v in (('left', a, case['a'], va), ('right', b, case['b'], vb)):
        if fpnum_fraction(obj) != v:
            return fail('FPNum.operand_changed|' + op, 'after {}({}, {}) the {} operand denotes {} instead of {}'.format(
                op, case['a'], case['b'], nm, fpnum_fraction(obj), v), cls=[tag])
        fmt, bits = (d[2], d[1]) if d[0] == 'b' else (('dp', float_to_bits(float(d[1]), 'dp')) if d[0] == 'f' else (None, None))
        if fmt is None:
            continue
        import io
        import contextlib
        out = io.StringIO()
        try:
            with contextlib.redirect_stdout(out):
                back = obj.convert(fmt)
        except Exception as e:
            return fail('FPNum.operand_round_trip|{}|exc:{}'.format(op, type(e).__name__),
                        'after {}({}, {}) converting the {} operand back to {} raised {!r} {}'.format(op, case['a'], case['b'], nm, fmt, e, out.getvalue()[:80]), cls=[tag])
        if back != bits:
            return fail('FPNum.operand_round_trip|' + op, 'after {}({}, {}) the {} operand converts to {:#x} instead of {:#x}'.format(
                op, case['a'], case['b'], nm, back, bits), cls=[tag])
    return ok(nt, [tag])


def _exact_bits(val, fmt):
    """platform encoding of the rational val in fmt when val is exactly representable there (finite), else None"""
    try:
        x = float(val)
    except OverflowError:
        return None
    if Fraction(x) != val:
        return None
    if val == 0:
        return None              # the sign of a zero result is not fixed by the rational value
    return float_to_bits(x, fmt)


def _check_result_encoding(r, val, what, tag):
    """a result that is exactly representable in a format must convert to that format's bit pattern"""
    import io
    import contextlib
    for fmt in ('dp', 'sp', 'hp'):
        exp = _exact_bits(val, fmt)
        if exp is None:
            continue
        out = io.StringIO()
        try:
            with contextlib.redirect_stdout(out):
                got = FPNum(r.s, r.e, r.m, r.p).convert(fmt)
        except Exception as e:
            return fail('FPNum.result_encoding|{}|exc:{}'.format(fmt, type(e).__name__), '{}: converting the result to {} raised {!r}'.format(what, fmt, e), cls=[tag])
        if got != exp:
            return fail('FPNum.result_encoding|' + fmt, '{}: the result {} converts to {:#x} in {} but its exact encoding is {:#x}'.format(
                what, _show(val), got, fmt, exp), cls=[tag])
    return None


def _show(fr):
    """printable form of a rational of any magnitude"""
    n, d = fr.numerator, fr.denominator
    if n.bit_length() < 80 and d.bit_length() < 80:
        return '{}/{}'.format(n, d)
    return '{}0x{:x}.. ({} bits) / 2**{}'.format('-' if n < 0 else '', abs(n) >> max(0, abs(n).bit_length() - 48), abs(n).bit_length(), d.bit_length() - 1)


def _chain(case):
    """a running value combined with a list of operands: every intermediate result must be the exact rational (products
    of products need arbitrarily many bits, sums of far apart magnitudes arbitrarily long alignments)"""
    tag = 'fpnum:chain'
    try:
        acc = _mk(case['a'])
    except Exception as e:
        return fail('FPNum.construct|exc:' + type(e).__name__, 'constructing {} raised {!r}'.format(case['a'], e), cls=[tag])
    val = _ref_value(case['a'])
    maxbits = 0
    for k, (op, d) in enumerate(case['ops']):
        try:
            b = _mk(d)
            vb = _ref_value(d)
            acc = {'add': acc.add, 'sub': acc.sub, 'mul': acc.mul}[op](b)
        except Exception as e:
            return fail('FPNum.chain|{}|exc:{}'.format(op, type(e).__name__), 'step {} of {} raised {!r}'.format(k, case, e), cls=[tag])
        val = {'add': val + vb, 'sub': val - vb, 'mul': val * vb}[op]
        got = fpnum_fraction(acc)
        if got != val:
            return fail('FPNum.chain|' + op, 'step {} ({}) of chain {} from {}: result denotes {} expected {}'.format(
                k, op, case['ops'][:k + 1], case['a'], _show(got), _show(val)), cls=[tag])
        bad = _check_result_encoding(acc, val, 'step {} of chain {} from {}'.format(k, case['ops'][:k + 1], case['a']), tag)
        if bad:
            return bad
        maxbits = max(maxbits, val.denominator.bit_length() + abs(val.numerator).bit_length())
        # order against the exact value of the operand
        exp = (val > vb) - (val < vb)
        try:
            cmpv = acc.compare(b)
        except Exception as e:
            return fail('FPNum.chain|compare|exc:' + type(e).__name__, 'compare after step {} raised {!r}'.format(k, e), cls=[tag])
        if cmpv != exp and not (val == 0 and vb == 0):
            return fail('FPNum.chain|compare', 'after step {} of chain {} from {}: compare with the operand gives {} expected {}'.format(
                k, case['ops'][:k + 1], case['a'], cmpv, exp), cls=[tag])
    return ok(maxbits > 250, [tag] + (['wide_intermediate'] if maxbits > 250 else []))


def _fx_value(raw, w, fw):
    return Fraction(to_signed(raw, w), 1 << fw)


def _fixed(case):
    iw, fw, a, b, op = case['iw'], case['fw'], case['a'], case['b'], case['op']
    w = 1 + iw + fw
    a &= mask(w)
    b &= mask(w)
    tag = 'fixedpoint:' + op
    fa = FixedPoint.fromRawValue(1, iw, fw, a)
    fb = FixedPoint.fromRawValue(1, iw, fw, b)
    if fa.v != a or fa.getWidths() != (1, iw, fw):
        return fail('FixedPoint.fromRawValue', 'fromRawValue lost the raw value', cls=[tag])
    sa, sb = to_signed(a, w), to_signed(b, w)
    if op == 'add':
        r, exp = fa.add(fb).v, (a + b) & mask(w)
    elif op == 'sub':
        r, exp = fa.sub(fb).v, (a - b) & mask(w)
    else:
        r, exp = fa.mult(fb).v, ((sa * sb) >> fw) & mask(w)
    if r != exp:
        return fail('FixedPoint.' + op, 'FixedPoint({},{},{}) {} raw {} , {} = {} expected {}'.format(1, iw, fw, op, a, b, r, exp), cls=[tag])
    # toFloatingPoint denotes the signed value whenever it is exactly representable as a double
    if w <= 50:
        if Fraction(fa.toFloatingPoint()) != _fx_value(a, w, fw):
            return fail('FixedPoint.toFloatingPoint', 'raw {} in (1,{},{}) -> {} expected {}'.format(a, iw, fw, fa.toFloatingPoint(), _fx_value(a, w, fw)), cls=[tag])
    wraps = {'add': a + b, 'sub': a - b, 'mul': (sa * sb) >> fw}[op] != to_signed(exp, w) if op != 'mul' else True
    return ok(sa < 0 or sb < 0 or wraps, [tag])


# ------------------------------------------------------------------------------------------------
def _enum_patterns(task):
    fmt = task['fmt']
    evals = nt = 0
    cls = {}
    fails = {}
    samples = []
    if 'range' in task:
        it = range(task['range'][0], task['range'][1])
    else:
        it = task['patterns']
    for b in it:
        tag, f = check_pattern(fmt, b)
        evals += 1
        cls[tag] = cls.get(tag, 0) + 1
        if tag.split(':')[1] in NT_CLASSES:
            nt += 1
            if len(samples) < 1 and evals % 97 == 5:
                samples.append({'case': {'kind': 'pattern', 'fmt': fmt, 'bits': b},
                                'observed': {'float': repr(bits_to_float(b, fmt))}})
        if f:
            e = fails.get(f[0])
            if e is None:
                fails[f[0]] = {'sig': f[0], 'msg': f[1], 'count': 1, 'case': {'kind': 'pattern', 'fmt': fmt, 'bits': b}}
            else:
                e['count'] += 1
    return {'evals': evals, 'nt': nt, 'cls': cls, 'fails': list(fails.values()), 'samples': samples}


def _finite_desc():
    fl = st.floats(allow_nan=False, allow_infinity=False)
    sp = st.integers(0, (1 << 32) - 1).filter(lambda b: vclass(b, 'sp') not in ('inf', 'nan'))
    hp = st.integers(0, (1 << 16) - 1).filter(lambda b: vclass(b, 'hp') not in ('inf', 'nan'))
    dp = st.integers(0, (1 << 64) - 1).filter(lambda b: vclass(b, 'dp') not in ('inf', 'nan'))
    semp = st.tuples(st.sampled_from([1, -1]), st.integers(-300, 300), st.integers(0, 1 << 70),
                     st.integers(0, 70).map(lambda k: 1 << k)).map(lambda t: ['semp'] + list(t))
    small = st.sampled_from([0.0, -0.0, 1.0, -1.0, 0.5, 2.0, 3.0, -3.0, 1e-310, 5e-324, 1.7976931348623157e308])
    return st.one_of(fl.map(lambda x: ['f', x]), small.map(lambda x: ['f', x]), sp.map(lambda b: ['b', b, 'sp']),
                     hp.map(lambda b: ['b', b, 'hp']), dp.map(lambda b: ['b', b, 'dp']), semp)


def _carry_out_pairs():
    """(a, b) in one format with |a| + |b| exactly a power of two: the sum carries out of the significand, e.g. largest
    subnormal + smallest subnormal = smallest normal"""
    def mk(fmt, bits):
        f = FMT[fmt]
        mag = bits & ((1 << (f['bits'] - 1)) - 1)
        if vclass(mag, fmt) in ('inf', 'nan') or mag == 0:
            return None
        va = Fraction(bits_to_float(mag, fmt))
        p2 = Fraction(1)
        while p2 <= va:
            p2 *= 2
        while p2 / 2 > va:
            p2 /= 2
        vb = p2 - va
        if vb == 0:
            vb = va
        bb = _exact_bits(vb, fmt)
        if bb is None:
            return None
        sign = bits & (1 << (f['bits'] - 1))
        return (['b', mag | sign, fmt], ['b', bb | sign, fmt])
    pats = st.one_of(
        st.sampled_from(['hp', 'sp', 'dp']).flatmap(lambda fmt: st.integers(1, (1 << FMT[fmt]['mb']) - 1).map(lambda m: (fmt, m))),          # subnormals
        st.sampled_from(['hp', 'sp', 'dp']).flatmap(lambda fmt: st.integers(0, (1 << FMT[fmt]['bits']) - 1).map(lambda b: (fmt, b))))
    return pats.map(lambda t: mk(*t)).filter(lambda x: x is not None)


def _arith_strategy():
    d = _finite_desc()
    def negated(a):
        if a[0] == 'f':
            return ['f', -a[1]]
        if a[0] == 'b':
            return ['b', a[1] ^ (1 << (FMT[a[2]]['bits'] - 1)), a[2]]
        return ['semp', -a[1]] + a[2:]
    near = st.one_of(d.flatmap(lambda a: st.tuples(st.just(a), st.one_of(d, st.just(a), st.just(negated(a))))), _carry_out_pairs())
    return st.tuples(near, st.sampled_from(['add', 'sub', 'mul', 'compare', 'compare', 'neg', 'abs', 'div2']),
                     st.integers(0, 40)).map(
        lambda t: {'kind': 'fpnum_arith', 'a': t[0][0], 'b': t[0][1], 'op': t[1], 'n': t[2]})


def _chain_strategy():
    d = _finite_desc()
    wide = st.tuples(st.sampled_from([1, -1]), st.one_of(st.integers(-300, 300), st.integers(-6000, 6000)), st.integers(1, 1 << 260),
                     st.integers(0, 260).map(lambda k: 1 << k)).map(lambda t: ['semp'] + list(t))
    tiny = st.sampled_from([['f', 1.0 + 2.0 ** -52], ['f', 5e-324], ['f', 1.7976931348623157e308], ['f', 1.0], ['f', -1.5], ['f', 3.0]])
    operand = st.one_of(d, wide, tiny)
    step = st.tuples(st.sampled_from(['mul', 'mul', 'add', 'sub']), operand).map(list)
    return st.tuples(operand, st.lists(step, min_size=1, max_size=6)).map(lambda t: {'kind': 'fpnum_chain', 'a': t[0], 'ops': t[1]})


def _c2_strategy():
    from ..cat_arith import width_st, value_st
    return width_st(1, 128).flatmap(lambda w: st.tuples(value_st(w), st.integers(0, 64)).map(
        lambda t: {'kind': 'c2', 'w': w, 'nw': w + t[1], 'v': t[0]}))


def _fixed_strategy():
    from ..cat_arith import value_st
    part = st.one_of(st.integers(0, 20), st.integers(0, 64), st.sampled_from([15, 16, 31, 32, 33, 63, 64]))
    return st.tuples(part, part).filter(lambda t: t[0] + t[1] >= 1).flatmap(
        lambda t: st.tuples(value_st(1 + t[0] + t[1]), value_st(1 + t[0] + t[1]), st.sampled_from(['add', 'sub', 'mul'])).map(
            lambda u: {'kind': 'fixedpoint', 'iw': t[0], 'fw': t[1], 'a': u[0], 'b': u[1], 'op': u[2]}))


def _pattern_strategy(fmt):
    f = FMT[fmt]
    eb, mb = f['eb'], f['mb']
    e = st.one_of(st.integers(0, mask(eb)), st.sampled_from([0, 1, 2, mask(eb) - 1, mask(eb), f['bias'], f['bias'] - 1, f['bias'] + 1]))
    m = st.one_of(st.integers(0, mask(mb)), st.sampled_from([0, 1, mask(mb), 1 << (mb - 1)]),
                  st.integers(0, mb - 1).map(lambda k: 1 << k))
    return st.tuples(st.integers(0, 1), e, m).map(
        lambda t: {'kind': 'pattern', 'fmt': fmt, 'bits': (t[0] << (f['bits'] - 1)) | (t[1] << mb) | t[2]})


def _chunks(lst, n):
    k = max(1, (len(lst) + n - 1) // n)
    return [lst[i:i + k] for i in range(0, len(lst), k)]


def strata(tier):
    quick = tier == 'quick'
    sp_grid = list(grid('sp', not quick))
    dp_grid = list(grid('dp', not quick))
    n = 4000 if quick else 150000
    return [
        {'name': 'hp_all_patterns', 'kind': 'enum', 'exhaustive': True, 'run_task': _enum_patterns,
         'tasks': [{'fmt': 'hp', 'range': [i * 4096, (i + 1) * 4096]} for i in range(16)]},
        {'name': 'sp_grid', 'kind': 'enum', 'exhaustive': False, 'run_task': _enum_patterns,
         'tasks': [{'fmt': 'sp', 'patterns': c} for c in _chunks(sp_grid, 16)]},
        {'name': 'dp_grid', 'kind': 'enum', 'exhaustive': False, 'run_task': _enum_patterns,
         'tasks': [{'fmt': 'dp', 'patterns': c} for c in _chunks(dp_grid, 16)]},
        {'name': 'sp_random', 'kind': 'hyp', 'examples': n, 'strategy': lambda: _pattern_strategy('sp'), 'run_case': run_case},
        {'name': 'dp_random', 'kind': 'hyp', 'examples': n, 'strategy': lambda: _pattern_strategy('dp'), 'run_case': run_case},
        {'name': 'twos_complement', 'kind': 'hyp', 'examples': n, 'strategy': _c2_strategy, 'run_case': run_case},
        {'name': 'fpnum_arithmetic', 'kind': 'hyp', 'examples': n, 'strategy': _arith_strategy, 'run_case': run_case},
        {'name': 'fpnum_chains', 'kind': 'hyp', 'examples': n // 2, 'strategy': _chain_strategy, 'run_case': run_case},
        {'name': 'fixedpoint_helper', 'kind': 'hyp', 'examples': n, 'strategy': _fixed_strategy, 'run_case': run_case},
    ]

"""C05 - clock edges are atomic: every sequential block sees pre-edge values."""
import random

import py4hw
from hypothesis import strategies as st

from .. import netgen
from ..netgen import netlists, ref_trace, build, is_state, sig_w
from ..bench import mask, all_wires
from ..runner import ok, fail, discard, HarnessError, exception_signature

PROP = 'C05'
RULE = ('case = (design with several sequential leaves wired to each other - generated register netlists with feedback '
        'through logic, or a library design: UART serializer->deserializer loop, Reg2Axi->Axi2Reg pair, synchronous '
        'memory with register address/data paths, an object-state FSM leaf (clock()+propagate()) enabling a counter, a checker leaf that calls stop() inside clock() with the run resumed afterwards - plus a schedule of input vectors held for n_i cycles, and k '
        'permutations (always including the reversal) of the order in which the simulator visits the sequential leaves). '
        'Non-trivial iff some sequential leaf S changes its output at an edge while another sequential leaf R reads S '
        '(directly or through logic) and S is visited before R in at least one explored permutation, i.e. an immediate '
        'write would have been visible. Distinct by JSON hash.')
ASSUMPTIONS = [
    'the visiting order is permuted through the public attribute sim.clockDrivers[drv].clockables of a held simulator object',
    'leaf state is observed through the integer / list attributes of each clockable leaf plus every wire value',
    'the reference evaluator (two-phase register update) never calls py4hw',
]


def leaf_state(sysm):
    out = {}
    for l in sysm.allLeaves():
        if l.isClockable():
            d = {}
            for k, v in vars(l).items():
                if isinstance(v, bool) or isinstance(v, int):
                    d[k] = v
                elif isinstance(v, list) and all(isinstance(x, int) for x in v):
                    d[k] = list(v)
            out[l.getFullPath()] = d
    return out


def full_state(sysm):
    return ({w.getFullPath(): w.get() for w in all_wires(sysm).values()}, leaf_state(sysm))


# ---- library designs -------------------------------------------------------------------------------------------------
def d_uart(p):
    import py4hw.logic.protocol.uart as UART
    s = py4hw.HWSystem()
    w = s.wire
    s_ready, s_valid, s_v = w('s_ready'), w('s_valid'), w('s_v', 8)
    d_ready, d_valid, d_v = w('d_ready'), w('d_valid'), w('d_v', 8)
    tx, desync, tcp, rxs = w('tx'), w('desync'), w('tx_clk_pulse'), w('rx_sample')
    UART.UARTSerializer(s, 'ser', s_ready, s_valid, s_v, tcp, tx)
    UART.ClockGenerationAndRecovery(s, 'clk', tx, desync, tcp, rxs, 2 * p['n'] * 1000, 1000)
    UART.UARTDeserializer(s, 'des', tx, rxs, d_ready, d_valid, d_v, desync)
    return s, [s_valid, s_v, d_ready]


def d_axi(p):
    from py4hw.logic.bus.axi import AXI4StreamInterface
    from py4hw.emulation.vitiswrapping import Axi2Reg, Reg2Axi
    s = py4hw.HWSystem()
    w = s.wire
    st_ = AXI4StreamInterface(s, 'stream', dw=8, has_tlast=True, has_tkeep=True)
    ap_start, ap_reset, ap_done, load, reg_in = w('ap_start'), w('ap_reset'), w('ap_done'), w('load'), w('reg_in', 8)
    sent, act1, q, loaded, act2 = w('sent'), w('act1'), w('q', 8), w('loaded'), w('act2')
    Reg2Axi(s, 'r2a', ap_start, ap_reset, ap_done, load, reg_in, st_, sent, act1)
    Axi2Reg(s, 'a2r', ap_start, ap_reset, ap_done, st_, q, loaded, act2)
    return s, [ap_start, ap_reset, ap_done, load, reg_in]


def d_mem(p):
    s = py4hw.HWSystem()
    w = s.wire
    aw, dw = p.get('aw', 2), p.get('dw', 4)
    wdata_in, we = w('wdata_in', dw), w('we')
    ra, wa, rd, wd = w('ra', aw), w('wa', aw), w('rd', dw), w('wd', dw)
    one = w('one')
    py4hw.Constant(s, 'one', 1, one)
    zero = w('zero')
    py4hw.Constant(s, 'zero', 0, zero)
    py4hw.Counter(s, 'wa_cnt', zero, we, wa)
    py4hw.Counter(s, 'ra_cnt', zero, one, ra)
    # write data = input xor last read data (feedback through the memory)
    mix = w('mix', dw)
    py4hw.Xor2(s, 'mix', wdata_in, rd, mix)
    py4hw.Reg(s, 'wd', mix, wd)
    py4hw.SynchronousMemory(s, 'mem', ra, wa, we, rd, wd)
    return s, [wdata_in, we]


def d_chain(p):
    """shift chain / ring of registers of mixed kinds built directly (swap pairs, ring with inverter)"""
    s = py4hw.HWSystem()
    w = s.wire
    n = p.get('len', 4)
    din = w('din', 4)
    qs = [w('q%d' % k, 4) for k in range(n)]
    fb = w('fb', 4)
    py4hw.Xor2(s, 'fb', qs[-1], din, fb)
    for k in range(n):
        py4hw.Reg(s, 'r%d' % k, fb if k == 0 else qs[k - 1], qs[k])
    a, b = w('a', 4), w('b', 4)
    na = w('na', 4)
    py4hw.Not(s, 'na', a, na)
    py4hw.Reg(s, 'swap_a', b, a)
    py4hw.Reg(s, 'swap_b', na, b)
    seqv = w('seqv', 4)
    py4hw.Sequence(s, 'stim', [1, 5, 2, 7, 7, 0], seqv)
    acc = w('acc', 4)
    nxt = w('nxt', 4)
    py4hw.Sub(s, 'nxt', acc, seqv, nxt)
    py4hw.Reg(s, 'acc', nxt, acc)
    return s, [din]


class MooreDivider(py4hw.Logic):
    """behavioural style of the documentation: the state lives in the object, clock() prepares no wire and the output
    is driven from propagate()"""

    def __init__(self, parent, name, go, tick, n):
        super().__init__(parent, name)
        self.go = self.addIn('go', go)
        self.tick = self.addOut('tick', tick)
        self.n = n
        self.state = 0

    def clock(self):
        if self.go.get():
            self.state = (self.state + 1) % self.n

    def propagate(self):
        self.tick.put(1 if self.state == self.n - 1 else 0)


def d_fsm(p):
    """an object-state FSM (clock() + propagate()) whose tick enables a library counter and a register"""
    s = py4hw.HWSystem()
    w = s.wire
    go, tick, zero = w('go'), w('tick'), w('zero')
    count, d, q = w('count', 6), w('d', 4), w('q', 4)
    py4hw.Constant(s, 'zero', 0, zero)
    MooreDivider(s, 'div', go, tick, p.get('n', 3))
    py4hw.Counter(s, 'ticks', zero, tick, count)
    py4hw.Reg(s, 'sample', d, q, enable=tick)
    return s, [go, d]


class Stopper(py4hw.Logic):
    """a checker leaf that calls Simulator.stop() from inside clock() at chosen edges (the documented way to interrupt a
    long clk(n) call from the design)"""

    def __init__(self, parent, name, x, stops):
        super().__init__(parent, name)
        self.x = self.addIn('x', x)
        self.stops = set(stops)
        self.edges = 0
        self.sim = None

    def clock(self):
        if self.edges in self.stops and self.sim is not None:
            self.sim.stop()
        self.edges += 1


def run_stop(case):
    """the chain design with a Stopper: a run that is interrupted by stop() and resumed must pass through the same states
    as an uninterrupted run (the edge during which stop() is called is taken completely, like every edge)"""
    tags = ['design:stop']
    p = case.get('params', {})
    res = []
    for stops in (p.get('stops', []), []):
        sysm, ins = d_chain(p)
        seqv = [w_ for w_ in all_wires(sysm).values() if w_.name == 'seqv'][0]
        st_ = Stopper(sysm, 'stopper', seqv, stops)
        sim = sysm.getSimulator()
        st_.sim = sim
        trace = []
        for vec, n in case['schedule']:
            for w_, v in zip(ins, vec):
                w_.put(v)
            remaining = n
            guard = 0
            while remaining > 0:
                before = sim.total_clks
                sim.clk(remaining)
                done = sim.total_clks - before
                if done <= 0 or done > remaining:
                    return fail('stop_resume|edge_count', 'clk({}) interrupted by stop() advanced total_clks by {}'.format(remaining, done), cls=tags)
                remaining -= done
                guard += 1
                if guard > n + 2:
                    raise HarnessError('no progress')
            if py4hw.Wire.prepared:
                return fail('prepared_not_cleared', 'Wire.prepared still holds {} after a clk call'.format(
                    [w_.getFullPath() for w_ in py4hw.Wire.prepared][:4]), cls=tags)
            trace.append(full_state(sysm))
        res.append(trace)
    if res[0] != res[1]:
        return fail('stop_resume|state', first_diff(res[1], res[0]).replace('permuted order', 'interrupted and resumed run') +
                    ' ; stops at edges {} schedule {}'.format(sorted(p.get('stops', [])), case['schedule'][:6]), cls=tags)
    total = sum(n for _, n in case['schedule'])
    return ok(any(e < total for e in p.get('stops', [])), tags)


def run_override(case):
    """a user leaf that prepares its outputs twice in one edge (default, then override): the last prepared value is the one
    that becomes visible, also when it equals the value the wire already holds"""
    import io
    import contextlib
    from .c06 import DefaultThenOverride
    tags = ['design:override']
    p = case['params']
    wa, wr, mode = p['wa'], p['wr'], p['mode']
    sysm = py4hw.HWSystem()
    a, b_, en = sysm.wire('a', wa), sysm.wire('b', wa), sysm.wire('en')
    r, pw = sysm.wire('r', wr), sysm.wire('p', wr)
    DefaultThenOverride(sysm, 'dut', a, b_, en, r, pw, mode)
    q = sysm.wire('q', wr)
    py4hw.Reg(sysm, 'follow', r, q)
    sim = sysm.getSimulator()
    m = (1 << wr) - 1
    prev_r = 0
    nt = False
    for t, (vec, n) in enumerate(case['schedule']):
        va, vb, ve = vec
        a.put(va)
        b_.put(vb)
        en.put(ve)
        for _ in range(n):
            with contextlib.redirect_stdout(io.StringIO()):
                sim.clk(1)
            exp_r, exp_p = 0, (va * vb) & m
            if ve:
                exp_r = {'diff': va - vb, 'neg': -va - 1}.get(mode, (va << 3) + vb) & m
                if mode != 'diff':
                    exp_p = (vb - va * 3) & m
            if r.get() != exp_r or pw.get() != exp_p or q.get() != prev_r:
                return fail('last_prepared_value_lost', 'step {} (a={} b={} en={} mode {}): r={} p={} q={} expected r={} p={} q={}'.format(
                    t, va, vb, ve, mode, r.get(), pw.get(), q.get(), exp_r, exp_p, prev_r), cls=tags)
            if exp_r == prev_r and ve:
                nt = True          # the overriding value equals the value the wire already holds
            prev_r = exp_r
    return ok(nt, tags)


DESIGNS = {'uart': d_uart, 'axi': d_axi, 'mem': d_mem, 'chain': d_chain, 'fsm': d_fsm}


# ---- execution ---------------------------------------------------------------------------------------------------------
def apply_perm(sim, perm_seed, reverse):
    for drv, cds in sim.clockDrivers.items():
        lst = cds.clockables
        if reverse:
            lst.reverse()
        elif perm_seed is not None:
            random.Random(perm_seed).shuffle(lst)     # permutation derived from the case (pure function of it)


def run_design(make, schedule, perm):
    """schedule: list of (input vector, n cycles); returns (trace, prepared_leak, total_clks, sim)"""
    sysm, ins = make()
    sim = sysm.getSimulator()
    apply_perm(sim, perm.get('seed'), perm.get('reverse', False))
    trace = [full_state(sysm)]
    leak = None
    for vec, n in schedule:
        for w_, v in zip(ins, vec):
            w_.put(v)
        if perm.get('single_calls', True):
            for _ in range(n):
                sim.clk(1)
                if py4hw.Wire.prepared and leak is None:
                    leak = [w_.getFullPath() for w_ in py4hw.Wire.prepared]
        else:
            sim.clk(n)
            if py4hw.Wire.prepared and leak is None:
                leak = [w_.getFullPath() for w_ in py4hw.Wire.prepared]
        trace.append(full_state(sysm))
    return trace, leak, sim.total_clks


def first_diff(t0, t1):
    for k, (a, b) in enumerate(zip(t0, t1)):
        if a != b:
            for part in (0, 1):
                for key in a[part]:
                    if a[part][key] != b[part].get(key):
                        return 'after schedule step {}: {} is {} in the reference order but {} in the permuted order'.format(
                            k, key, a[part][key], b[part].get(key))
    return 'traces differ'


def cone_pairs(desc):
    """(S, R) pairs: register S is in the combinational fan-in cone of register R"""
    nodes = desc['nodes']
    memo = {}

    def cone(sig):
        if sig[0] == 'i':
            return set()
        k = int(sig[1:])
        if is_state(nodes[k]):
            return {k}
        if k in memo:
            return memo[k]
        memo[k] = set()
        r = set()
        for a in nodes[k]['args']:
            r |= cone(a)
        memo[k] = r
        return r
    pairs = set()
    for k, nd in enumerate(nodes):
        if is_state(nd):
            for a in nd['args']:
                for s in cone(a):
                    if s != k:
                        pairs.add((s, k))
    return pairs


def run_case(case):
    if case.get('design') == 'stop':
        return run_stop(case)
    if case.get('design') == 'override':
        return run_override(case)
    perms = [{'reverse': False, 'seed': None}] + [{'reverse': True}] + [{'seed': s} for s in case.get('perm_seeds', [])]
    schedule = [(v, n) for v, n in case['schedule']]
    tags = []
    if case['kind'] == 'netlist':
        desc = case['desc']

        def make():
            b = build(desc)
            return b.sys, b.inputs
        tags.append('netlist')
    else:
        def make():
            return DESIGNS[case['design']](case.get('params', {}))
        tags.append('design:' + case['design'])
    traces = []
    for pi, perm in enumerate(perms):
        tr, leak, total = run_design(make, schedule, dict(perm, single_calls=True))
        if leak:
            return fail('prepared_not_cleared', 'Wire.prepared still holds {} after a clk call'.format(leak[:4]), cls=tags)
        traces.append(tr)
        if pi > 0 and tr != traces[0]:
            return fail('order_dependent|' + ('reverse' if perm.get('reverse') else 'shuffle'),
                        first_diff(traces[0], tr) + ' ; schedule {}'.format(schedule[:6]), cls=tags)
    # clk(n) == n x clk(1)
    tr_n, leak, total_n = run_design(make, schedule, {'reverse': False, 'seed': None, 'single_calls': False})
    if leak:
        return fail('prepared_not_cleared', 'Wire.prepared still holds {} after clk(n)'.format(leak[:4]), cls=tags)
    if tr_n != traces[0]:
        return fail('clk_n_differs', first_diff(traces[0], tr_n) + ' (clk(n) versus n single-cycle calls) ; schedule {}'.format(schedule[:6]), cls=tags)
    if total_n != sum(n for _, n in schedule):
        return fail('total_clks', 'total_clks = {} after {} cycles'.format(total_n, sum(n for _, n in schedule)), cls=tags)
    nt = False
    if case['kind'] == 'netlist':
        # reference two-phase semantics
        seq = []
        for v, n in schedule:
            seq += [v] * n
        ref = ref_trace(desc, seq)
        b = build(desc)
        sim = b.sys.getSimulator()
        pairs = cone_pairs(desc)
        prev = netgen.reg_init(desc)
        for t, vec in enumerate(seq):
            for w_, v in zip(b.inputs, vec):
                w_.put(v)
            sim.clk(1)
            for s, w_ in b.wire.items():
                if ref[t][s] is not None and w_.get() != ref[t][s]:
                    return fail('two_phase_reference', 'cycle {}: wire {} is {} but two-phase semantics give {}'.format(
                        t, s, w_.get(), ref[t][s]), cls=tags)
            changed = {k for k in prev if ref[t]['n%d' % k] != prev[k]}
            if any(s in changed for s, r in pairs):
                nt = True
            prev = {k: ref[t]['n%d' % k] for k in prev}
    else:
        if case['design'] == 'fsm':
            # reference: pre-edge tick decides the counter and the sampling register; the FSM advances at the same edge
            n = case.get('params', {}).get('n', 3)
            state = count = q = 0
            for k, (vec, cyc) in enumerate(schedule):
                for _ in range(cyc):
                    tick = 1 if state == n - 1 else 0
                    count, q = (count + tick) & 63, (vec[1] & 15 if tick else q)
                    if vec[0]:
                        state = (state + 1) % n
                got = traces[0][k + 1][0]
                exp = {'count': count, 'q': q, 'tick': 1 if state == n - 1 else 0}
                for name, v in exp.items():
                    key = [x for x in got if x == '/HWSystem[HWSystem][{}]'.format(name)]
                    if not key:
                        raise HarnessError('wire {} not found in {}'.format(name, sorted(got)[:8]))
                    if got[key[0]] != v:
                        return fail('two_phase_reference|fsm', 'after schedule step {}: {} is {} but pre-edge sampling gives {} ; n={} schedule {}'.format(
                            k, name, got[key[0]], v, n, schedule[:8]), cls=tags)
        # library designs: non-trivial if at least two clockable leaves changed state at the same edge sometime
        tr = traces[0]
        for a, b_ in zip(tr, tr[1:]):
            ch = [k for k in a[1] if a[1][k] != b_[1].get(k)]
            if len(ch) >= 2:
                nt = True
                break
    return ok(nt, tags)


@st.composite
def netlist_cases(draw, max_nodes):
    desc = draw(netlists(max_nodes=max_nodes, min_nodes=2, n_regs=(2, 6), n_mems=(0, 2), hierarchy=2, max_w=16, domains=draw(st.booleans()), widths=[1, 2, 4, 4, 8],
                         ops=['And2', 'Or2', 'Xor2', 'Not', 'Add', 'Sub', 'Mux2', 'Constant', 'Range', 'Bit', 'ZeroExtend', 'Buf', 'Mealy']))
    from ..cat_arith import value_st
    # bias towards registers that read another register's output directly (chains, swaps, rings across domains)
    regs = [k for k, nd in enumerate(desc['nodes']) if nd['op'] == 'Reg']
    for k in regs:
        same = [j for j in regs if j != k and desc['nodes'][j]['w'] == desc['nodes'][k]['w']]
        if same and draw(st.booleans()):
            desc['nodes'][k]['args'][0] = 'n%d' % draw(st.sampled_from(same))
    # a clock enable that changes from edge to edge while the inputs are held: a 1-bit register toggling (or
    # following a slow counter bit) inside the design drives the enable of a gated group, so that clk(n) with n > 1
    # crosses enabled and disabled edges within one call
    if desc['groups'] and draw(st.booleans()):
        nodes = desc['nodes']
        r = len(nodes)
        nodes.append({'op': 'Reg', 'args': ['n%d' % (r + 1)], 'w': 1, 'p': {'en': False, 'rst': False}, 'g': -1})
        nodes.append({'op': 'Not', 'args': ['n%d' % r], 'w': 1, 'p': {}, 'g': -1})
        desc['order'] = desc['order'] + [r, r + 1]
        g = draw(st.integers(0, len(desc['groups']) - 1))
        desc['groups'][g]['enable'] = 'n%d' % r
        if regs:
            for k in draw(st.lists(st.sampled_from(regs), min_size=1, max_size=2, unique=True)):
                desc['nodes'][k]['g'] = g
    steps = draw(st.lists(st.tuples(st.tuples(*[value_st(i['w']) for i in desc['inputs']]).map(list),
                                    st.sampled_from([1, 1, 1, 2, 3, 5])).map(list), min_size=2, max_size=8))
    return {'kind': 'netlist', 'desc': desc, 'schedule': steps, 'perm_seeds': draw(st.lists(st.integers(0, 10 ** 6), min_size=1, max_size=2))}


@st.composite
def design_cases(draw):
    name = draw(st.sampled_from(['uart', 'axi', 'mem', 'chain', 'chain', 'mem', 'fsm', 'fsm', 'stop', 'override']))
    if name == 'override':
        wa = draw(st.sampled_from([1, 2, 4]))
        steps = [[[draw(st.integers(0, (1 << wa) - 1)), draw(st.integers(0, (1 << wa) - 1)), draw(st.integers(0, 1))], draw(st.integers(1, 3))]
                 for _ in range(draw(st.integers(2, 8)))]
        return {'kind': 'design', 'design': 'override', 'schedule': steps, 'perm_seeds': [],
                'params': {'wa': wa, 'wr': draw(st.sampled_from([1, 3, 4])), 'mode': draw(st.sampled_from(['diff', 'neg', 'wide']))}}
    if name == 'stop':
        steps = [[[draw(st.integers(0, 15))], draw(st.integers(1, 6))] for _ in range(draw(st.integers(2, 6)))]
        total = sum(n for _, n in steps)
        return {'kind': 'design', 'design': 'stop', 'schedule': steps, 'perm_seeds': [],
                'params': {'len': draw(st.integers(2, 5)), 'stops': sorted(set(draw(st.lists(st.integers(0, total), min_size=1, max_size=4))))}}
    if name == 'uart':
        params = {'n': draw(st.integers(2, 4))}
        steps = []
        for _ in range(draw(st.integers(2, 5))):
            steps.append([[1, draw(st.integers(0, 255)), draw(st.integers(0, 1))], draw(st.integers(5, 40))])
            steps.append([[0, 0, 1], draw(st.integers(1, 30))])
    elif name == 'axi':
        params = {}
        steps = [[[1, 0, 0, 0, 0], 1]]
        for _ in range(draw(st.integers(3, 12))):
            steps.append([[draw(st.sampled_from([0, 0, 1])), draw(st.sampled_from([0, 0, 0, 1])), 0,
                           draw(st.integers(0, 1)), draw(st.integers(0, 255))], draw(st.integers(1, 3))])
    elif name == 'fsm':
        params = {'n': draw(st.integers(2, 6))}
        steps = [[[draw(st.sampled_from([1, 1, 1, 0])), draw(st.integers(0, 15))], draw(st.sampled_from([1, 2, 3, 7, 12, 24]))] for _ in range(draw(st.integers(2, 8)))]
    elif name == 'mem':
        params = {'aw': draw(st.integers(1, 3)), 'dw': draw(st.integers(1, 8))}
        steps = [[[draw(st.integers(0, 255)), draw(st.integers(0, 1))], draw(st.integers(1, 4))] for _ in range(draw(st.integers(3, 12)))]
    else:
        params = {'len': draw(st.integers(2, 6))}
        steps = [[[draw(st.integers(0, 15))], draw(st.integers(1, 4))] for _ in range(draw(st.integers(3, 10)))]
    return {'kind': 'design', 'design': name, 'params': params, 'schedule': steps,
            'perm_seeds': draw(st.lists(st.integers(0, 10 ** 6), min_size=1, max_size=3))}


def shrink_candidates(case):
    s = case['schedule']
    for i in range(len(s)):
        if len(s) > 1:
            yield dict(case, schedule=s[:i] + s[i + 1:])
    for i, (v, n) in enumerate(s):
        if n > 1:
            yield dict(case, schedule=s[:i] + [[v, 1]] + s[i + 1:])
    if len(case.get('perm_seeds', [])) > 0:
        yield dict(case, perm_seeds=[])


def strata(tier):
    a, b, mx = (500, 300, 14) if tier == 'quick' else (8000, 4000, 30)
    return [
        {'name': 'register_netlists', 'kind': 'hyp', 'examples': a, 'strategy': lambda: netlist_cases(mx), 'run_case': run_case},
        {'name': 'library_designs', 'kind': 'hyp', 'examples': b, 'strategy': design_cases, 'run_case': run_case},
    ]

"""C16 - AXI4-Stream adapters never lose, duplicate or corrupt a beat.

Reference state machines written from the statement in the *peer's* view (a beat is accepted at an
edge with VALID and READY on the stream wires), lock-step comparison after every edge plus history
invariants over the transfer log."""
import math

import py4hw
from py4hw.logic.bus.axi import AXI4StreamInterface
from py4hw.emulation.vitiswrapping import Axi2Reg, Reg2Axi
from hypothesis import strategies as st

from ..bench import mask
from ..runner import ok, fail, discard, HarnessError
from . import c09
from .c09 import Model

PROP = 'C16'
RULE = ('case = (adapter, register width, stream width, per-cycle schedule of ap_start/ap_reset/ap_done/load_outs/'
        'data/peer VALID or READY); schedules are drawn in bursts (back-pressure runs, back-to-back beats, load while '
        'a beat is pending, reset mid-transfer, restart while active); an ap_done that would violate the environment '
        'assumption (done only after a completed transfer) is cleared and counted. Non-trivial iff the schedule '
        'contains a stalled beat (VALID high, READY low >= 1 cycle; for Axi2Reg a beat offered while inactive) and a '
        'control pulse (reset/start/load) while a beat is pending, and at least one accepted beat. Distinct by JSON hash. '
        'An exhaustive BFS of the 1-bit-data product machine is added.')
ASSUMPTIONS = [
    'environment: ap_done is only pulsed after a completed transfer (Axi2Reg: loaded set; Reg2Axi: sent set - a further beat may be pending, i.e. done in the middle of the next transfer)',
    'reference machines are written in the peer view: accepted beat = VALID and READY on the stream wires at the edge',
    'when a clear (reset/done/restart) coincides with a beat or a load pulse, the clear wins (register reset priority)',
]


class Axi2RegM(Model):
    required = ('beat', 'beat_offered_while_inactive', 'clear_with_data', 'start')

    def __init__(self, cfg):
        super().__init__(cfg)
        self.wq, self.dw = cfg['wq'], cfg['dw']
        self.active = 0
        self.q = 0
        self.loaded = 0
        self.sanitized = 0

    def ports(self):
        if self.cfg.get('side'):
            # the sink stream also carries the optional TKEEP / TLAST side-band signals, driven freely by the peer
            return [1, 1, 1, 1, self.dw, self.dw // 8, 1]
        return [1, 1, 1, 1, self.dw]       # ap_start, ap_reset, ap_done, tvalid, tdata

    def outs(self):
        return [1, self.wq, 1, 1]          # tready, q, loaded, active

    def sanitize(self, v):
        v = list(v)
        if v[2] and not self.loaded:
            v[2] = 0
            self.sanitized += 1
        return v

    def out(self, v):
        return [self.active, self.q, self.loaded, self.active]

    def tick(self, v):
        start, reset, done, tvalid, tdata = v[:5]
        if self.cfg.get('side') and tvalid and self.active and v[5] == 0:
            self.ev('beat_with_null_keep')
        tready = self.active
        beat = tvalid and tready
        clear = reset or done or (start and not self.active)
        if tvalid and not tready:
            self.ev('beat_offered_while_inactive')
        if clear:
            if self.loaded:
                self.ev('clear_with_data')
            self.q, self.loaded = 0, 0
        elif beat:
            self.q, self.loaded = tdata & mask(self.wq), 1
            self.ev('beat')
        if reset or done:
            self.active = 0
        elif start:
            self.active = 1
            self.ev('start')


class Reg2AxiM(Model):
    required = ('accepted', 'stall', 'load_while_pending', 'control_while_pending')

    def __init__(self, cfg):
        super().__init__(cfg)
        self.w, self.dw = cfg['w'], cfg['dw']
        self.active = 0
        self.tvalid = 0
        self.tdata = 0
        self.sent = 0
        self.sanitized = 0
        self.vwi = False
        self.keep = ((1 << math.ceil(self.w / 8)) - 1) & mask(self.dw // 8)

    def ports(self):
        return [1, 1, 1, 1, self.w, 1]     # ap_start, ap_reset, ap_done, load_outs, reg_in, tready

    def outs(self):
        return [1, self.dw, 1, self.dw // 8, 1, 1]     # tvalid, tdata, tlast, tkeep, sent, active

    def sanitize(self, v):
        v = list(v)
        if v[2] and not self.sent:
            v[2] = 0
            self.sanitized += 1
        if v[2] and self.tvalid:
            self.ev('done_with_beat_pending')     # done after a completed transfer, in the middle of the next one
        # same known finding, second way in: once VALID is high in an inactive adapter a ready peer sees the beat every
        # cycle without it being retired; the peer is kept not-ready in that state unless the case asks for it
        if self.tvalid and not self.active and v[5] and not v[1] and not (v[0]) and not self.cfg.get('allow_load_at_done'):
            v[5] = 0
            self.excluded_known = getattr(self, 'excluded_known', 0) + 1
        # known finding reg2axi-load-at-done: a load pulse at the very edge of ap_done raises VALID in an
        # adapter that has just become inactive; excluded by construction unless the case asks for it
        if v[2] and v[3] and self.active and not v[1] and not self.cfg.get('allow_load_at_done'):
            v[3] = 0
            self.excluded_known = getattr(self, 'excluded_known', 0) + 1
        return v

    def feature(self):
        return 'valid_while_inactive' if self.vwi else ''

    def out(self, v):
        return [self.tvalid, self.tdata, self.tvalid, self.keep, self.sent, self.active]

    def tick(self, v):
        start, reset, done, load, reg_in, tready = v
        accepted = self.tvalid and tready          # peer view
        if self.tvalid and not self.active:
            self.vwi = True
        setv = load and self.active
        if self.tvalid and not tready:
            self.ev('stall')
            if load:
                self.ev('load_while_pending')
            if reset or start:
                self.ev('control_while_pending')
        if accepted:
            self.ev('accepted')
        clear_sent = reset or done or (start and not self.active)
        if clear_sent:
            self.sent = 0
        elif accepted:
            self.sent = 1
        if reset or accepted:
            self.tvalid = 0
        elif setv:
            self.tvalid = 1
        if setv:
            self.tdata = reg_in & mask(self.dw)
        if reset or done:
            self.active = 0
        elif start:
            self.active = 1


def _a2r_build(s, i, o, c):
    if c.get('side'):
        stream = AXI4StreamInterface(s, 'stream', dw=c['dw'], has_tlast=True, has_tkeep=True)
    else:
        stream = AXI4StreamInterface(s, 'stream', dw=c['dw'])
    dut = Axi2Reg(s, 'dut', i[0], i[1], i[2], stream, o[1], o[2], o[3])
    py4hw.Buf(s, 'drv_tvalid', i[3], stream.tvalid)
    py4hw.Buf(s, 'drv_tdata', i[4], stream.tdata)
    if c.get('side'):
        py4hw.Buf(s, 'drv_tkeep', i[5], stream.tkeep)
        py4hw.Buf(s, 'drv_tlast', i[6], stream.tlast)
    py4hw.Buf(s, 'obs_tready', stream.tready, o[0])
    return dut


def _r2a_build(s, i, o, c):
    stream = AXI4StreamInterface(s, 'stream', dw=c['dw'], has_tlast=True, has_tkeep=True)
    dut = Reg2Axi(s, 'dut', i[0], i[1], i[2], i[3], i[4], stream, o[4], o[5])
    py4hw.Buf(s, 'drv_tready', i[5], stream.tready)
    py4hw.Buf(s, 'obs_tvalid', stream.tvalid, o[0])
    py4hw.Buf(s, 'obs_tdata', stream.tdata, o[1])
    py4hw.Buf(s, 'obs_tlast', stream.tlast, o[2])
    py4hw.Buf(s, 'obs_tkeep', stream.tkeep, o[3])
    return dut


TABLE = {'Axi2Reg': (Axi2RegM, _a2r_build), 'Reg2Axi': (Reg2AxiM, _r2a_build)}


def invariants(model, t, vec, pre, post):
    """history invariants over the observed wires (independent of the lock-step model outputs)"""
    if isinstance(model, Reg2AxiM):
        start, reset, done, load, reg_in, tready = vec
        tvalid0, tdata0, tlast0, tkeep0, sent0, active0 = pre
        tvalid1, tdata1, tlast1, tkeep1, sent1, active1 = post
        accepted = tvalid0 and tready
        if tvalid0 and not tvalid1 and not accepted and not reset:
            return ('valid_dropped', 'VALID fell without an accepted beat or a reset')
        if tvalid0 and tvalid1 and not load and tdata0 != tdata1:
            return ('tdata_unstable', 'TDATA changed while VALID was held and no load pulse arrived')
        if sent1 and not sent0 and not accepted:
            return ('sent_without_beat', 'sent rose at an edge without an accepted beat')
        if tlast1 != tvalid1 or tlast0 != tvalid0:
            return ('tlast', 'TLAST differs from TVALID')
        if tkeep0 != tkeep1:
            return ('tkeep', 'TKEEP is not constant')
    else:
        start, reset, done, tvalid, tdata = vec[:5]
        tready0, q0, loaded0, active0 = pre
        tready1, q1, loaded1, active1 = post
        if tready0 != active0 or tready1 != active1:
            return ('ready_ne_active', 'READY is not equal to active')
        beat = tvalid and tready0
        if loaded1 and not loaded0 and not beat:
            return ('loaded_without_beat', 'loaded rose without a transferred beat')
        if loaded0 and loaded1 and not beat and q0 != q1:
            return ('q_changed', 'register changed without a transferred beat')
    return None


def run_case(case):
    r = c09.run_history(case['block'], case['cfg'], case['hist'], table=TABLE, invariants=invariants)
    blk = case['block']
    if r[0] == 'rejected':
        raise HarnessError('adapter configuration rejected: {} {}'.format(case['cfg'], r[1]))
    if r[0] == 'fail':
        return fail(r[1], r[2], cls=[blk])
    events, required, model = r[1], r[2], r[3]
    nt = all(x in events for x in required)
    tags = [blk] + [blk + ':' + e for e in sorted(events)]
    if getattr(model, 'excluded_known', 0):
        tags.append('excluded_known:reg2axi-load-at-done')
    if model.sanitized:
        tags.append(blk + ':done_cleared_by_environment_assumption')
    return ok(nt, tags)


def _cfg(block):
    dw = st.sampled_from([8, 16, 32, 64, 128])
    if block == 'Axi2Reg':
        return dw.flatmap(lambda d: st.fixed_dictionaries({'dw': st.just(d), 'wq': st.one_of(st.integers(1, min(d, 64)), st.just(min(d, 64)), st.integers(1, d), st.just(d)),
                                                           'side': st.booleans()}))
    return st.fixed_dictionaries({'dw': dw, 'w': st.one_of(st.integers(1, 64), st.sampled_from([1, 8, 9, 32, 64]))})


def _hist(block, cfg, max_len):
    from ..cat_arith import value_st
    m = TABLE[block][0](cfg)
    inw = m.ports()
    pulse = st.sampled_from([0, 0, 0, 0, 1])
    level = st.sampled_from([0, 1, 1])
    if block == 'Axi2Reg':
        if cfg.get('side'):
            keep = st.one_of(st.just(0), st.just(mask(cfg['dw'] // 8)), st.integers(0, mask(cfg['dw'] // 8)))
            vec = st.tuples(st.sampled_from([0, 0, 1]), pulse, pulse, level, value_st(cfg['dw']), keep, st.integers(0, 1))
        else:
            vec = st.tuples(st.sampled_from([0, 0, 1]), pulse, pulse, level, value_st(cfg['dw']))
    else:
        vec = st.tuples(st.sampled_from([0, 0, 1]), pulse, pulse, st.sampled_from([0, 0, 1]), value_st(cfg['w']), st.sampled_from([0, 0, 1]))
    burst = st.tuples(vec, st.integers(1, 5)).map(lambda t: [list(t[0])] * t[1])
    # every history starts by arming the adapter most of the time
    return st.lists(st.one_of(vec.map(lambda v: [list(v)]), burst), min_size=1, max_size=max_len).map(
        lambda ch: [v for c in ch for v in c][:max_len])


def case_strategy(max_len):
    return st.sampled_from(['Axi2Reg', 'Reg2Axi']).flatmap(
        lambda b: _cfg(b).flatmap(lambda c: _hist(b, c, max_len).map(lambda h: {'block': b, 'cfg': c, 'hist': h})))


shrink_candidates = c09.shrink_candidates


def _bfs(task):
    return c09._bfs_task(task, table=TABLE, invariants=invariants)


def strata(tier):
    tiny = [{'block': 'Axi2Reg', 'cfg': {'dw': 8, 'wq': 1}, 'limit': 2000, 'port_values': [None, None, None, None, [0, 1]]},
            {'block': 'Reg2Axi', 'cfg': {'dw': 8, 'w': 1}, 'limit': 2000}]
    n, L = (2000, 40) if tier == 'quick' else (50000, 120)
    return [
        {'name': 'schedules', 'kind': 'hyp', 'examples': n, 'strategy': lambda: case_strategy(L), 'run_case': run_case},
        {'name': 'bfs_1bit_data', 'kind': 'enum', 'exhaustive': True, 'run_task': _bfs, 'tasks': tiny},
    ]

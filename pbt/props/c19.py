"""C19 - Verilog generation is a pure, repeatable function of the circuit.

Histories of generation requests over one to three live circuits (whole hierarchy or single module, from a
generator created for the target, for an ancestor or for the system, fresh or reused) interleaved with
simulation steps.  (1) purity: a twin of each circuit on which generation is never requested is stepped with
the same inputs and must agree on every wire after every step, and the structure of the circuit is unchanged;
(2) repeatability: every answer equals the first answer to the same (circuit, request class, target) up to
declaration order; (3) the text of a sub-block does not depend on the ancestor the request was made from."""
import py4hw
from hypothesis import strategies as st

from .. import vlog, rtl, netgen, vcheck
from ..netgen import netlists, build, is_state
from ..bench import mask, all_wires
from ..runner import ok, fail, discard, HarnessError
from ..cat_arith import value_st
from . import c03, c09

PROP = 'C19'
RULE = ('case = (1..3 circuits: generated hierarchical netlists with registers, list of steps: generation request '
        '(kind, target sub-block, fresh or reused generator) or simulation step (clk with an input vector)). Non-trivial '
        'iff the history contains >= 2 requests of one class on one circuit separated by a request on another circuit or '
        'by a simulation step. Distinct by JSON hash.')
ASSUMPTIONS = [
    'instance-unique module suffixes are derived from id() and therefore stable for a live object; texts are compared after sorting declarations, continuous assignments and instances inside each module',
    'a createdStructures list is an in/out parameter by design; a fresh list is supplied on every request',
    'a request that raises must raise again when repeated (a refusal is an answer too)',
]


def structure_snapshot(obj):
    out = []

    def walk(o):
        out.append((o.getFullPath(), type(o).__name__, tuple(o.children.keys()),
                    tuple((p.name, id(p.wire)) for p in o.inPorts), tuple((p.name, id(p.wire)) for p in o.outPorts),
                    tuple(sorted(o._wires.keys())), id(o.clockDriver) if o.clockDriver is not None else None))
        for c in o.children.values():
            walk(c)
    walk(obj)
    wires = []
    for w in all_wires(obj).values():
        src = w.getSource() if hasattr(w, 'source') else None
        wires.append((w.getFullPath(), w.getWidth(), id(src) if src is not None else None, tuple(id(s) for s in w.getSinks())))
    return out, sorted(wires)


def canon(text):
    """order-insensitive canonical form of a generated text"""
    if text is None:
        return None
    try:
        mods = vlog.parse(text)
    except vlog.VParseError:
        return ('raw', tuple(sorted(l.strip() for l in text.splitlines() if l.strip())))
    out = []
    for m in mods:
        out.append((m.name, repr(m.params), tuple((p.dir, p.is_reg, repr(p.rng), p.name) for p in m.ports),
                    tuple(sorted(repr((d.kind, d.rng, d.name, d.mem, d.init)) for d in m.decls)),
                    tuple(sorted(repr(a) for a in m.assigns)),
                    tuple(sorted(repr((i.module, i.name, i.params, i.conns)) for i in m.instances)),
                    tuple(repr(a) for a in m.always), tuple(repr(a) for a in m.initials)))
    return ('mods', tuple(out))


def targets_of(top):
    """non-inlinable descendants (depth-first), including the top itself as index 0"""
    gen = py4hw.VerilogGenerator(top)
    res = [top]

    def walk(o):
        for c in o.children.values():
            if gen.isInlinable(c):
                continue
            res.append(c)
            walk(c)
    walk(top)
    return res


def request(kind, top, sysm, target, gens, reuse):
    """returns (class key, text or ('refused', type))"""
    def G(root):
        key = id(root)
        if reuse and key in gens:
            return gens[key]
        g = py4hw.VerilogGenerator(root)
        gens[key] = g
        return g
    try:
        if kind == 0:
            return ('hier', id(top)), G(top).getVerilogForHierarchy()
        if kind == 1:
            return ('mod', id(top)), G(top).getVerilog()
        if kind == 2:
            return ('mod', id(target)), G(top).getVerilog(obj=target)
        if kind == 3:
            return ('mod', id(target)), G(target).getVerilog()
        if kind == 4:
            return ('mod', id(target)), G(sysm).getVerilog(obj=target)
        if kind == 5:
            return ('hier', id(target)), G(top).getVerilogForHierarchy(obj=target)
        if kind == 6:
            return ('hier', id(target)), G(target).getVerilogForHierarchy()
        if kind == 7:
            return ('hier', id(target)), G(sysm).getVerilogForHierarchy(obj=target, createdStructures=[])
    except Exception as e:
        cls = {0: 'hier', 1: 'mod', 2: 'mod', 3: 'mod', 4: 'mod', 5: 'hier', 6: 'hier', 7: 'hier'}[kind]
        tgt = top if kind in (0, 1) else target
        return (cls, id(tgt)), ('refused', type(e).__name__)
    raise HarnessError('bad kind')


def text_matches_circuit(text, desc, vectors):
    """'each result describing the same design': the returned hierarchy text, executed by the Verilog interpreter,
    must behave like a fresh build of the same description (None = ok / not judged, else a message)"""
    if any(g.get('clk') is not None or g.get('enable') is not None for g in desc['groups']):
        return None          # several clock drivers: the cycle simulator and an edge-triggered netlist differ by design
    try:
        mods = vlog.parse(text)
    except vlog.VParseError:
        return None          # C03's verdict
    c = build(desc)
    top = c.group_obj.get(0)
    ins = [p.wire for p in top.inPorts]
    outs = [p.wire for p in top.outPorts]
    in_names = [py4hw.rtl_generation.getPortName(p) for p in top.inPorts]
    out_names = [py4hw.rtl_generation.getPortName(p) for p in top.outPorts]
    sig_of = {id(w): s_ for s_, w in c.wire.items()}
    order = [sig_of[id(w)] for w in ins]
    idx = {'i%d' % k: k for k in range(len(desc['inputs']))}
    seq = [[vec[idx[n]] & mask(desc['inputs'][idx[n]]['w']) for n in order] for vec in vectors]
    for w, v in zip(ins, seq[0]):
        w.put(v)
    sim = c.sys.getSimulator()
    try:
        vs = vlog.Sim(mods, mods[0].name, inputs=dict(zip(in_names, seq[0])))
    except vlog.VSimError:
        return None
    for t, vec in enumerate(seq):
        for w, v in zip(ins, vec):
            w.put(v)
        for n, v in zip(in_names, vec):
            vs.poke(n, v)
        sim.clk(1)
        vs.cycle()
        if vs.undefined_events:
            return None
        py = [w.get() for w in outs]
        vv = [vs.peek(n) for n in out_names]
        if py != vv:
            return 'cycle {}: the circuit drives {} but the returned text drives {} (outputs {})'.format(t + 1, py, vv, out_names)
    return None


_FRESH = r'''
import sys, json
sys.path.insert(0, sys.argv[1]); sys.path.insert(0, sys.argv[2])
import os
sys.stdout = open(os.devnull, 'w')
import py4hw
from pbt import netgen
from pbt.props import c19
req = json.loads(sys.stdin.read())
b = netgen.build(req['desc'])
target = None
def walk(o):
    global target
    if o.getFullPath() == req['path']:
        target = o
    for c in o.children.values():
        walk(c)
walk(b.sys)
try:
    g = py4hw.VerilogGenerator(target)
    text = g.getVerilogForHierarchy() if req['cls'] == 'hier' else g.getVerilog()
    res = [list(x) for x in c19.answer_problems(req['cls'], text)]
except Exception as e:
    res = [['refused', type(e).__name__]]
sys.__stdout__.write(json.dumps(res))
'''


def answer_problems(cls, text):
    """well-formedness problems of one answer: a hierarchy text must be a closed design, a module text must define a module"""
    try:
        mods = vlog.parse(text)
    except vlog.VParseError:
        return []                  # C03's verdict
    if not mods:
        return [('no_module_defined', 'the text defines no module')]
    if cls != 'hier':
        return []                  # a single module cannot be judged further without the modules it instantiates
    return vcheck.check_design(mods, closed=True)


def fresh_process_problems(desc, cls='hier', path=None):
    """problems of the answer a fresh interpreter (fresh generator, nothing generated before) gives to the same request
    on a fresh build of the description; None when the helper process fails"""
    import json
    import os
    import subprocess
    import sys
    from .. import runner
    root = os.path.dirname(os.path.dirname(os.path.dirname(os.path.abspath(__file__))))
    if path is None:
        path = build(desc).group_obj.get(0).getFullPath()
    try:
        r = subprocess.run([sys.executable, '-c', _FRESH, runner.PY4HW_SRC, root], input=json.dumps({'desc': desc, 'cls': cls, 'path': path}),
                           capture_output=True, text=True, timeout=120, env=dict(os.environ, PYTHONHASHSEED='0'))
        return json.loads(r.stdout)
    except Exception:
        return None


def run_case(case):
    circuits = []
    for desc in case['circuits']:
        a = build(desc)
        b = build(desc)
        top = a.group_obj.get(0)
        if top is None:
            return discard('empty_top')
        circuits.append({'a': a, 'b': b, 'top': top, 'targets': targets_of(top), 'desc': desc,
                         'snap': structure_snapshot(a.sys), 'sima': a.sys.getSimulator(), 'simb': b.sys.getSimulator(),
                         'first': {}, 'gens': {}, 'last_req': {}})
    nt = False
    clock = 0       # counts events, to detect "separated by something else"
    tags = ['circuits={}'.format(len(circuits))]
    for step in case['steps']:
        ci = step[1] % len(circuits)
        c = circuits[ci]
        clock += 1
        if step[0] == 'clk':
            vec = step[2]
            for bb in (c['a'], c['b']):
                for w, v, i in zip(bb.inputs, vec, c['desc']['inputs']):
                    w.put(v)
            n = 1 + step[3] % 3
            c['sima'].clk(n)
            c['simb'].clk(n)
            c['dirty'] = clock
        else:
            kind = step[2] % 8
            tgt = c['targets'][step[3] % len(c['targets'])]
            if kind in (0, 1):
                tgt = c['top']
            reuse = bool(step[4] % 2)
            key, ans = request(kind, c['top'], c['a'].sys, tgt, c['gens'], reuse)
            key = (ci,) + key
            can = ans if isinstance(ans, tuple) else canon(ans)
            first = c['first'].get(key)
            if not isinstance(ans, tuple):
                problems = answer_problems(key[1], ans)
                if problems:
                    # an ill-formed / empty answer is C03's business when the circuit gets it in a fresh process as well;
                    # when a fresh process answers the same request well, the answer depends on what was requested before
                    tgt_obj = c['top'] if kind in (0, 1) else tgt
                    ref_problems = fresh_process_problems(c['desc'], key[1], tgt_obj.getFullPath())
                    if ref_problems == []:
                        return fail('history_dependent_text|{}|{}'.format(key[1], problems[0][0]),
                                    'circuit {} request kind {} target {}: the answer is ill formed ({}) although a fresh process answers the same request with a well-formed text\n{}'.format(
                                        ci, kind, tgt_obj.getFullPath(), problems[0][1], ans[:900]), cls=tags)
                    tags.append('ill_formed_in_fresh_process_too')
            if kind == 0 and not isinstance(ans, tuple):
                vecs = [[(step[2] * 7 + step[3] * 13 + 31 * j + 5 * t) % (1 << x['w']) for j, x in enumerate(c['desc']['inputs'])]
                        for t in range(3)]
                bad = text_matches_circuit(ans, c['desc'], vecs)
                if bad:
                    return fail('text_describes_another_design', 'circuit {}: {}\n{}'.format(ci, bad, ans[:900]), cls=tags)
            if first is None:
                c['first'][key] = (can, kind, ans)
            else:
                # was there anything in between (another circuit's request or a simulation step)?
                last = c['last_req'].get(key, 0)
                if any(o is not c and o.get('touched', 0) > last for o in circuits) or c.get('dirty', 0) > last:
                    nt = True
                if can != first[0]:
                    what = 'refusal_changed' if isinstance(ans, tuple) or isinstance(first[2], tuple) else ('ancestor_dependent' if kind != first[1] else 'not_repeatable')
                    return fail('{}|{}'.format(what, key[1]),
                                'request kind {} on circuit {} target {} differs from the first answer (kind {}):\n--- first ---\n{}\n--- now ---\n{}'.format(
                                    kind, ci, tgt.getFullPath(), first[1], str(first[2])[:600], str(ans)[:600]), cls=tags)
            c['last_req'][key] = clock
            c['touched'] = clock
        # purity after every step, on every circuit
        for k, cc in enumerate(circuits):
            for s, w in cc['a'].wire.items():
                if w.get() != cc['b'].wire[s].get():
                    return fail('not_pure|wire_value', 'after step {} wire {} of circuit {} is {} but its twin (never generated) has {}'.format(
                        step, s, k, w.get(), cc['b'].wire[s].get()), cls=tags)
            if cc['sima'].total_clks != cc['simb'].total_clks:
                return fail('not_pure|total_clks', 'total_clks differs from the twin', cls=tags)
        if step[0] == 'gen':
            snap = structure_snapshot(c['a'].sys)
            if snap != c['snap']:
                return fail('not_pure|structure', 'after request {} the structure of circuit {} changed (children / ports / wires / sources / sinks)'.format(step, ci), cls=tags)
    return ok(nt, tags)


@st.composite
def cases(draw, max_nodes, max_steps):
    n = draw(st.integers(1, 3))
    circuits = [c03.under_top(draw(netlists(max_nodes=max_nodes, n_regs=(0, 3), hierarchy=3, max_w=16))) for _ in range(n)]
    for desc in circuits:
        # transpiled behavioural leaves with a constructor constant (different constants in one process)
        for _ in range(draw(st.integers(0, 2))):
            src = draw(st.sampled_from(['i%d' % k for k in range(len(desc['inputs']))] + ['n%d' % k for k in range(len(desc['nodes']))]))
            desc['nodes'].append({'op': 'ScaleK', 'args': [src], 'w': 16, 'p': {'k': draw(st.integers(0, 9))},
                                  'g': draw(st.integers(0, len(desc['groups']) - 1))})
            desc['order'].append(len(desc['nodes']) - 1)
            desc['outputs'] = sorted(set(desc['outputs'] + ['n%d' % (len(desc['nodes']) - 1)]))
        # a second transpiled class whose locals are named like the ports of the first one
        if draw(st.integers(0, 2)) == 0:
            src = draw(st.sampled_from(['i%d' % k for k in range(len(desc['inputs']))] + ['n%d' % k for k in range(len(desc['nodes']))]))
            desc['nodes'].append({'op': 'LocalAR', 'args': [src], 'w': 16, 'p': {}, 'g': draw(st.integers(0, len(desc['groups']) - 1))})
            desc['order'].append(len(desc['nodes']) - 1)
            desc['outputs'] = sorted(set(desc['outputs'] + ['n%d' % (len(desc['nodes']) - 1)]))
        # a behavioural leaf the transpiler refuses: requests that reach it raise half way
        if draw(st.integers(0, 3)) == 0:
            src = draw(st.sampled_from(['i%d' % k for k in range(len(desc['inputs']))] + ['n%d' % k for k in range(len(desc['nodes']))]))
            desc['nodes'].append({'op': 'PopLoop', 'args': [src], 'w': 8, 'p': {}, 'g': draw(st.integers(0, len(desc['groups']) - 1))})
            desc['order'].append(len(desc['nodes']) - 1)
            desc['outputs'] = sorted(set(desc['outputs'] + ['n%d' % (len(desc['nodes']) - 1)]))
        # a sub-block clocked by a clock driver of its own (named clock whose wire is a port of the parent)
        subs = [gi for gi, g in enumerate(desc['groups']) if gi > 0 and
                any(netgen.is_state(nd) and _inside(desc, nd['g'], gi) for nd in desc['nodes'])]
        if subs and draw(st.integers(0, 2)) == 0:
            desc['inputs'].append({'w': 1})
            desc['groups'][draw(st.sampled_from(subs))]['clk'] = {'name': 'clk_slow', 'wire': 'i%d' % (len(desc['inputs']) - 1)}
    # a user block class that names its module itself (structureName): the same name is used in independent designs for
    # blocks of different content (e.g. with and without a pipeline register) - at most one such block per design
    for desc in circuits:
        subs = [gi for gi in range(1, len(desc['groups'])) if any(_inside(desc, nd['g'], gi) for nd in desc['nodes'])]
        if subs and draw(st.booleans()):
            desc['groups'][draw(st.sampled_from(subs))]['sname'] = 'Stage8'
    for desc in circuits:
        for nd in desc['nodes']:
            if nd['op'] == 'Add' and nd['args'][0] == nd['args'][1]:
                nd['op'] = 'Sub'      # known finding c01-aliased-ports (C01's business) excluded by construction
    i = st.integers(0, 40)
    steps = []
    for _ in range(draw(st.integers(2, max_steps))):
        ci = draw(st.integers(0, n - 1))
        if draw(st.integers(0, 3)) == 0:
            vec = [draw(value_st(x['w'])) for x in circuits[ci]['inputs']]
            steps.append(['clk', ci, vec, draw(i)])
        else:
            steps.append(['gen', ci, draw(i), draw(i), draw(i)])
    return {'circuits': circuits, 'steps': steps}


def _inside(desc, g, anc):
    while g != -1:
        if g == anc:
            return True
        g = desc['groups'][g]['parent']
    return False


def shrink_candidates(case):
    s = case['steps']
    for k in range(len(s)):
        if len(s) > 1:
            yield dict(case, steps=s[:k] + s[k + 1:])


def strata(tier):
    n, mx, st_ = (300, 10, 12) if tier == 'quick' else (8000, 25, 25)
    return [{'name': 'request_histories', 'kind': 'hyp', 'examples': n, 'strategy': lambda: cases(mx, st_), 'run_case': run_case}]

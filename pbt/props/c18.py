"""C18 - a schematic shows the circuit that exists: every block once, wired as built.

Validity predicate over the placed-and-routed schematic (objs, nets, symbol_matrix), evaluated on the
resulting state (swallowed exceptions inside placeAndRoute do not count as success)."""
import sys as _sys

import py4hw
from py4hw.schematic import Schematic
import py4hw.schematic_symbols as SS
from hypothesis import strategies as st

from .. import netgen, rtl
from ..netgen import netlists, build
from ..runner import ok, fail, discard, HarnessError, exception_signature
from ..cat_arith import E as ARITH
from ..cat_logic import L as LOGIC
from . import c03, c09

PROP = 'C18'
RULE = ('case = a structural block whose internal wires are all driven: every structural catalogue block at generated '
        'widths / arities, or a generated netlist wrapper (fan-out, feedback through registers, long forward edges). The '
        'schematic is built headless with placeAndRoute. Non-trivial iff the block needs at least one pass-through or '
        'feedback marker, or has a wire with fan-out >= 3. Distinct by JSON hash.')
ASSUMPTIONS = [
    'termination is checked as bounded safety: a deterministic budget of Python function calls (sys.setprofile counter), not a wall clock',
    'nets are treated as undirected edges between symbols when connectivity is judged (feedback paths are drawn against the flow)',
    'the clause "no pin of any other wire" is also read geometrically: no segment of a routed path may pass through the pin position of another wire (two shapes occur on the unchanged tree and are known findings; every other shape is reported)',
    'blocks with undriven inputs are outside the statement ("whose internal wires are all driven") and are only required not to crash',
]

CALL_BUDGET_BASE = 3_000_000
CALL_BUDGET_PER_CHILD = 600_000


class Budget(Exception):
    pass


def build_schematic(obj, n_children):
    limit = CALL_BUDGET_BASE + CALL_BUDGET_PER_CHILD * n_children
    count = [0]

    def prof(frame, event, arg):
        if event == 'call':
            count[0] += 1
            if count[0] > limit:
                raise Budget()
    _sys.setprofile(prof)
    try:
        s = Schematic(obj, placeAndRoute=True)
    finally:
        _sys.setprofile(None)
    return s, count[0]


def is_virtual(sym):
    return isinstance(sym, (SS.PassthroughSymbol, SS.FeedbackStartSymbol, SS.FeedbackStopSymbol))


def check(obj, sch):
    """returns (rule, message) or None"""
    objs = sch.objs
    real = [s for s in objs if not is_virtual(s) and not isinstance(s, SS.MissingConnectionSymbol)]
    # (2) one symbol per child and per port
    want = list(obj.children.values()) + list(obj.inPorts) + list(obj.outPorts)
    by_obj = {}
    for s in real:
        by_obj.setdefault(id(getattr(s, 'obj', None)), []).append(s)
    for o in want:
        n = len(by_obj.get(id(o), []))
        if n != 1:
            return ('symbol_count', '{} has {} symbols'.format(getattr(o, 'name', o), n))
    if len(real) != len(want):
        return ('symbol_count', '{} symbols for {} children and ports'.format(len(real), len(want)))
    # each symbol exactly once in the grid
    seen = {}
    m = sch.symbol_matrix
    for r in range(m.shape[0]):
        for c in range(m.shape[1]):
            s = m[r, c]
            if s is not None:
                seen[id(s)] = seen.get(id(s), 0) + 1
    for s in real:      # the statement speaks about instance and port symbols; markers are judged through the nets
        if seen.get(id(s), 0) != 1:
            return ('grid_presence', 'symbol {} appears {} times in the grid'.format(getattr(s, 'name', s), seen.get(id(s), 0)))
    # bounding boxes of instance / port symbols pairwise disjoint
    boxes = []
    for s in real:
        boxes.append((s.x, s.y, s.x + s.getWidth(), s.y + s.getHeight(), s))
    for i in range(len(boxes)):
        for j in range(i + 1, len(boxes)):
            a, b = boxes[i], boxes[j]
            if a[0] < b[2] and b[0] < a[2] and a[1] < b[3] and b[1] < a[3]:
                return ('overlap', 'symbols {} and {} overlap: {} {}'.format(a[4].name, b[4].name, a[:4], b[:4]))
    # (3) per wire connectivity and pins
    sym_of = {id(o): by_obj[id(o)][0] for o in want}
    wires = {}
    for ch in obj.children.values():
        for p in ch.outPorts:
            if p.wire is not None:
                wires.setdefault(id(p.wire), {'w': p.wire, 'drv': [], 'rd': []})['drv'].append((ch, p))
        for p in ch.inPorts:
            if p.wire is not None:
                wires.setdefault(id(p.wire), {'w': p.wire, 'drv': [], 'rd': []})['rd'].append((ch, p))
    for p in obj.inPorts:
        wires.setdefault(id(p.wire), {'w': p.wire, 'drv': [], 'rd': []})['drv'].append((p, p))
    for p in obj.outPorts:
        wires.setdefault(id(p.wire), {'w': p.wire, 'drv': [], 'rd': []})['rd'].append((p, p))
    for net in sch.nets:
        for port in (net.sourcePort, net.sinkPort):
            if port is not None and getattr(port, 'wire', None) is not net.wire:
                return ('foreign_pin', 'a net of wire {} touches port {} of another wire'.format(net.wire.name, port.name))
    for info in wires.values():
        w = info['w']
        nets = [n for n in sch.nets if n.wire is w]
        if not info['rd']:
            continue        # nothing reads it inside the block: nothing to draw
        if not info['drv']:
            continue        # undriven: outside the statement (a MissingConnectionSymbol is drawn)
        if not nets:
            return ('wire_not_drawn', 'wire {} has readers but no net'.format(w.name))
        # connectivity (undirected)
        adj = {}
        for n in nets:
            adj.setdefault(id(n.source), set()).add(id(n.sink))
            adj.setdefault(id(n.sink), set()).add(id(n.source))
        start = next(iter(adj))
        todo, comp = [start], {start}
        while todo:
            x = todo.pop()
            for y in adj[x]:
                if y not in comp:
                    comp.add(y)
                    todo.append(y)
        if len(comp) != len(adj):
            return ('wire_disconnected', 'the nets of wire {} form {} symbols in the first component of {}'.format(w.name, len(comp), len(adj)))
        owner, dport = info['drv'][0]
        dsym = sym_of[id(owner)]
        if not any(n.source is dsym and n.sourcePort is dport for n in nets):
            return ('driver_pin_missing', 'no net of wire {} starts at its driver pin {}.{}'.format(w.name, getattr(owner, 'name', '?'), dport.name))
        for owner, rport in info['rd']:
            rsym = sym_of[id(owner)]
            if not any(n.sink is rsym and n.sinkPort is rport for n in nets):
                return ('reader_pin_missing', 'no net of wire {} ends at reader pin {}.{}'.format(w.name, getattr(owner, 'name', '?'), rport.name))
    # (3b) geometry: the drawn path of a net touches no pin of another wire
    pins = []
    for n in sch.nets:
        if n.sourcePort is not None and not is_virtual(n.source):
            pins.append((n.getStartPoint(), n.wire, n.source.name + '.' + getattr(n.sourcePort, 'name', '?'), _sym_class(n.source)))
        if n.sinkPort is not None and not is_virtual(n.sink):
            pins.append((n.getEndPoint(), n.wire, n.sink.name + '.' + getattr(n.sinkPort, 'name', '?'), _sym_class(n.sink)))
    for n in sch.nets:
        if n.x is None or len(n.x) < 2:
            continue
        for (px, py), w, pname, pcls in pins:
            if w is n.wire:
                continue
            for i in range(len(n.x) - 1):
                x0, y0, x1, y1 = n.x[i], n.y[i], n.x[i + 1], n.y[i + 1]
                if min(x0, x1) <= px <= max(x0, x1) and min(y0, y1) <= py <= max(y0, y1):
                    # on the bounding box of the segment: exact for axis-parallel segments, test collinearity otherwise
                    if (x1 - x0) * (py - y0) == (y1 - y0) * (px - x0):
                        kind = 'marker_path' if (is_virtual(n.source) or is_virtual(n.sink)) else 'direct_path'
                        seg = 'vertical' if x0 == x1 else ('horizontal' if y0 == y1 else 'diagonal')
                        at_end = (px, py) in ((n.x[0], n.y[0]), (n.x[-1], n.y[-1]))
                        return ('foreign_pin_touched:{}:{}:{}:{}'.format(kind, seg, 'at_end' if at_end else 'mid', pcls),
                                'the drawn path of wire {} runs through pin {} of wire {} at {}'.format(
                            n.wire.name, pname, w.name, (px, py)))
    # (4) routed paths end on the pins
    for n in sch.nets:
        if is_virtual(n.source) or is_virtual(n.sink):
            continue        # markers are drawn as part of the path; only pin-to-pin nets have both ends on pins
        if n.x is not None and len(n.x) > 0:
            sp, ep = n.getStartPoint(), n.getEndPoint()
            if (n.x[0], n.y[0]) != sp or (n.x[-1], n.y[-1]) != ep:
                return ('route_endpoints', 'routed path of wire {} runs {}..{} but its pins are at {} and {}'.format(
                    n.wire.name, (n.x[0], n.y[0]), (n.x[-1], n.y[-1]), sp, ep))
    return None


def _sym_class(sym):
    """class of the circuit object a symbol stands for (the symbol of an Add, of a Xor ...), for failure signatures"""
    o = getattr(sym, 'obj', None)
    return type(o).__name__ if o is not None else type(sym).__name__


def nontrivial(obj, sch):
    if any(is_virtual(s) for s in sch.objs):
        return True
    fan = {}
    for ch in obj.children.values():
        for p in ch.inPorts:
            fan[id(p.wire)] = fan.get(id(p.wire), 0) + 1
    return any(v >= 3 for v in fan.values())


def judge(obj, tags, name):
    if not obj.isStructural():
        return discard('not_structural', tags)
    try:
        sch, calls = build_schematic(obj, len(obj.children))
    except Budget:
        return fail('does_not_terminate|' + name, 'placeAndRoute exceeded the call budget for a block with {} children'.format(len(obj.children)), cls=tags)
    except HarnessError:
        raise
    except Exception as e:
        es = exception_signature(e) or type(e).__name__
        return fail('raises|{}|{}'.format(es, name), 'Schematic() raised {!r}'.format(e), cls=tags)
    r = check(obj, sch)
    if r:
        return fail('{}|{}'.format(r[0], name), r[1] + ' (block {} with {} children, {} nets)'.format(
            type(obj).__name__, len(obj.children), len(sch.nets)), cls=tags)
    nt = nontrivial(obj, sch)
    return ok(nt, tags + (['virtual_symbols'] if any(is_virtual(s) for s in sch.objs) else []),
              info={'children': len(obj.children), 'nets': len(sch.nets), 'profiled_calls': calls})


def run_block(case):
    name, cfg = case['block'], case['cfg']
    tags = ['block:' + name]
    if name in c09.BLOCKS:
        Mcls, bld = c09.BLOCKS[name]
        model = Mcls(cfg)
        inw, outw = model.ports(), model.outs()
        builder = lambda t, i, o: bld(t, i, o, cfg)
    else:
        cat = ARITH if name in ARITH else LOGIC
        e = cat[name]
        inw, outw = e.inw(cfg), e.outw(cfg)
        builder = lambda t, i, o: e.build(t, i, o, cfg)
    try:
        sysm, top, ins, outs, blk = rtl.wrap(inw, outw, builder)
    except HarnessError:
        raise
    except Exception:
        return discard('rejected_by_constructor', tags)
    if not isinstance(blk, py4hw.Logic):
        return discard('helper_entry', tags)
    return judge(blk, tags, name)


def self_loop(desc):
    """known finding c18-register-self-loop: a state element that reads its own output directly"""
    return any(netgen.is_state(nd) and ('n%d' % k) in nd['args'] for k, nd in enumerate(desc['nodes']))


def run_netlist(case):
    r = _run_netlist(case)
    if self_loop(case['desc']):
        r['cls'].append('known_trigger:c18-register-self-loop')
        if r['fail']:
            r['fail']['sig'] += '|register_self_loop'
    return r


def _run_netlist(case):
    desc = case['desc']
    b = build(desc)
    top = b.group_obj.get(0)
    if top is None:
        return discard('empty_top')
    which = case.get('group', 0)
    objs = [top] + [g for k, g in sorted(b.group_obj.items()) if k != 0]
    obj = objs[which % len(objs)]
    return judge(obj, ['netlist'], 'netlist')


def run_case(case):
    if case['kind'] == 'block':
        return run_block(case)
    return run_netlist(case)


def shrink_candidates(case):
    return iter(())      # descriptions are not shrunk generically (widths / references must stay consistent)


def block_cases():
    names = [n for n in sorted(list(ARITH) + list(LOGIC)) if not n.startswith('hlp.')] + sorted(c09.BLOCKS)

    def for_block(n):
        if n in c09.BLOCKS:
            return c09.cfgs(n).map(lambda c: {'kind': 'block', 'block': n, 'cfg': c})
        cat = ARITH if n in ARITH else LOGIC
        return cat[n].strat.map(lambda c: {'kind': 'block', 'block': n, 'cfg': c})
    return st.sampled_from(names).flatmap(for_block)


@st.composite
def netlist_cases(draw, max_nodes):
    desc = c03.under_top(draw(netlists(max_nodes=max_nodes, n_regs=(0, 4), hierarchy=2, max_w=16)))
    keep_known = draw(st.integers(0, 19)) == 0        # the known trigger is kept alive in 5% of the cases
    excluded = 0
    if not keep_known:
        for k, nd in enumerate(desc['nodes']):
            me = 'n%d' % k
            if netgen.is_state(nd) and me in nd['args']:
                # excluded by construction: read an input of the same width through an adapter-free Buf instead
                for j, a in enumerate(nd['args']):
                    if a == me:
                        w = netgen.sig_w(desc, me)
                        desc['nodes'].append({'op': 'Not', 'args': [me], 'w': w, 'p': {}, 'g': nd['g']})
                        desc['order'].append(len(desc['nodes']) - 1)
                        nd['args'][j] = 'n%d' % (len(desc['nodes']) - 1)
                excluded += 1
    if draw(st.booleans()):
        desc['scoped_wire_names'] = True       # inner wires reuse the names of outer wires (legal: names are per block)
    return {'kind': 'netlist', 'desc': desc, 'group': draw(st.integers(0, 5)), 'excluded_known': excluded}


@st.composite
def pipeline_cases(draw):
    """long pipelines (6..14 stages, one column each) with several register feedback loops into earlier stages and bypass
    nets that skip columns: many pass-through and feedback markers in one drawing"""
    k = draw(st.integers(6, 14))
    w = draw(st.sampled_from([1, 4]))
    kinds = [draw(st.sampled_from(['Not', 'Reg', 'Buf', 'Reg', 'Not'])) for _ in range(k)]
    nodes = []
    prev = 'i0'
    for i in range(k):
        nodes.append({'op': kinds[i], 'args': [prev], 'w': w, 'p': {'en': False, 'rst': False} if kinds[i] == 'Reg' else {}, 'g': 0})
        prev = 'n%d' % i
    regs = [i for i in range(k) if kinds[i] == 'Reg']
    outputs = [prev]
    # feedback loops: stage i becomes Xor2(previous stage, output of a later register)
    for _ in range(draw(st.integers(2, 4))):
        cands = [(i, j) for j in regs for i in range(0, j) if kinds[i] in ('Not', 'Buf')]
        if not cands:
            break
        i, j = draw(st.sampled_from(cands))
        nodes[i] = {'op': 'Xor2', 'args': [nodes[i]['args'][0], 'n%d' % j], 'w': w, 'p': {}, 'g': 0}
        kinds[i] = 'Xor2'
    # bypasses: an extra gate reading a stage several columns back, driving an output of its own
    for _ in range(draw(st.integers(0, 3))):
        i = draw(st.integers(2, k - 1))
        j = draw(st.integers(0, max(0, i - 2)))
        nodes.append({'op': 'And2', 'args': ['n%d' % i, 'n%d' % j], 'w': w, 'p': {}, 'g': 0})
        outputs.append('n%d' % (len(nodes) - 1))
    order = list(draw(st.permutations(list(range(len(nodes))))))
    desc = {'inputs': [{'w': w}], 'nodes': nodes, 'outputs': sorted(set(outputs)), 'order': order, 'groups': [{'parent': -1, 'enable': None}]}
    return {'kind': 'netlist', 'desc': desc, 'group': 0, 'excluded_known': 0}


def _per_block_task(task):
    from ..runner import hyp_task
    n = task['block']
    if n in c09.BLOCKS:
        strat = c09.cfgs(n).map(lambda c: {'kind': 'block', 'block': n, 'cfg': c})
    else:
        cat = ARITH if n in ARITH else LOGIC
        strat = cat[n].strat.map(lambda c: {'kind': 'block', 'block': n, 'cfg': c})
    return hyp_task(strat, run_case, task['n'], 'C18:' + n)


def strata(tier):
    q = tier == 'quick'
    names = [n for n in sorted(list(ARITH) + list(LOGIC)) if not n.startswith('hlp.')] + sorted(c09.BLOCKS)
    return [
        {'name': 'every_block', 'kind': 'enum', 'exhaustive': False, 'run_task': _per_block_task,
         'tasks': [{'block': n, 'n': 3 if q else 40} for n in names]},
        {'name': 'pipelines_with_feedback_and_bypass', 'kind': 'hyp', 'examples': 400 if q else 6000, 'strategy': pipeline_cases, 'run_case': run_case},
        {'name': 'netlists', 'kind': 'hyp', 'examples': 150 if q else 4000, 'strategy': lambda: netlist_cases(14 if q else 40), 'run_case': run_case},
    ]

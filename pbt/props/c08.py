"""C08 - logic, selection and comparison blocks implement their truth tables exactly."""
from ..cat_logic import L
from .. import combprop

PROP = 'C08'
RULE = ('case = (block, configuration, input vector); exhaustive stratum: full truth table of every accepted '
        'configuration below the width/arity bound whose total input bits fit the bound (distinct by construction); '
        'Hypothesis stratum: widths up to 128, arities up to 9, boundary-biased operands (distinct by JSON hash); stratum every_width_edge_operands: every block at a spread of widths (every width 1..140 in the thorough tier) with edge operands. '
        'Non-trivial iff the unreduced reference value differs from its reduction (complements) or an operand is '
        'at an extreme (all ones / only top bit set: the signed-comparison boundary).')
ASSUMPTIONS = [
    'truth tables are written from the docstrings; PriorityEncoder follows the behaviour pinned by the existing unit test (docstring and code comment disagree)',
    'one-hot selectors are judged only on one-hot or all-zero select vectors; constants of constant comparators lie in 0..2^w-1',
    'n-ary and structural gates are judged with equal operand/result widths (their documentation does not define mixed widths)',
]

run_case = combprop.make_run_case(L)
_run_task = combprop.make_run_task(L)


def strata(tier):
    if tier == 'quick':
        W, bits, n = 3, 12, 6000
    else:
        W, bits, n = 5, 16, 200000
    return [
        {'name': 'exhaustive_truth_tables', 'kind': 'enum', 'exhaustive': True,
         'tasks': combprop.enum_tasks(L, W, bits), 'run_task': _run_task},
        {'name': 'every_width_edge_operands', 'kind': 'enum', 'exhaustive': False,
         'tasks': combprop.width_tasks(L, combprop.QUICK_WIDTHS if tier == 'quick' else range(1, 141)), 'run_task': combprop.make_width_task(L)},
        {'name': 'one_wire_on_two_ports', 'kind': 'hyp', 'examples': n // 4,
         'strategy': lambda: combprop.alias_strategy(L), 'run_case': run_case},
        {'name': 'hypothesis_wide', 'kind': 'hyp', 'examples': n,
         'strategy': lambda: combprop.case_strategy(L), 'run_case': run_case},
    ]


def extra_coverage(tier):
    return {'blocks': sorted(L.keys())}

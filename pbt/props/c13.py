"""C13 - single-precision floating-point blocks meet IEEE-754 within the stated error bounds.

Oracle: exact rationals (fractions.Fraction) decoded from the bit patterns; no floating-point
equality or tolerance is computed in floating point."""
import struct
from fractions import Fraction

import py4hw
from hypothesis import strategies as st

from ..bench import Bench, mask, to_signed
from ..runner import ok, fail, discard, HarnessError, exception_signature

PROP = 'C13'
RULE = ('case = (block, operand encodings). Operands are finite normal single-precision encodings built as '
        'sign x exponent x mantissa with the exponent pair chosen by gap (0..60 and random), mantissa boundary '
        'patterns, and opposite-sign close magnitudes; integers for the conversions include every +-2^k, +-(2^k+-1), '
        'INT_MIN/MAX. Non-trivial iff exponent gap >= 24, or >= 8 leading bits cancel, or a mantissa is a boundary '
        'pattern (0, 1, all ones, only top bit), or (conversions) the value is at a power-of-two boundary / loses '
        'precision / is out of range. Distinct by JSON hash.')
ASSUMPTIONS = [
    'operands are restricted to finite normal numbers (exponent field 1..254) as the statement says',
    'adder and multiplier are judged only when the exact result is normal (2^-126 <= |x| < 2^128)',
    'ulp(x) = 2^(floor(log2|x|)-23); tolerances are compared exactly as rationals',
    'float-to-int: the result word is unspecified when the invalid flag is expected',
]

MB = 23


def dec(b):
    """finite single-precision pattern -> Fraction (subnormals included); None for inf/NaN"""
    s = (b >> 31) & 1
    e = (b >> 23) & 0xFF
    m = b & mask(23)
    if e == 255:
        return None
    if e == 0:
        v = Fraction(m, 1 << 23) * Fraction(2) ** -126
    else:
        v = Fraction((1 << 23) | m, 1 << 23) * Fraction(2) ** (e - 127)
    return -v if s else v


def ilog2(x):
    """floor(log2 |x|) for a non-zero Fraction"""
    x = abs(x)
    n, d = x.numerator, x.denominator
    k = n.bit_length() - d.bit_length()
    if Fraction(2) ** k > x:
        k -= 1
    elif Fraction(2) ** (k + 1) <= x:
        k += 1
    return k


def ulp_of(x):
    return Fraction(2) ** (ilog2(x) - 23)


def is_normal_value(x):
    return x != 0 and -126 <= ilog2(x) <= 127


def expo(b):
    return (b >> 23) & 0xFF


_B = {}


def bench(name):
    b = _B.get(name)
    if b is not None:
        return b
    if name == 'FPAdder_SP':
        b = Bench([32, 32], [32], lambda s, i, o: py4hw.FPAdder_SP(s, 'dut', i[0], i[1], o[0]))
    elif name == 'FPMult_SP':
        b = Bench([32, 32], [32], lambda s, i, o: py4hw.FPMult_SP(s, 'dut', i[0], i[1], o[0]))
    elif name == 'FPComparator_SP':
        b = Bench([32, 32], [1, 1, 1], lambda s, i, o: py4hw.FPComparator_SP(s, 'dut', i[0], i[1], o[0], o[1], o[2]))
    elif name == 'FPComparator_SP.abs':
        b = Bench([32, 32], [1, 1, 1], lambda s, i, o: py4hw.FPComparator_SP(s, 'dut', i[0], i[1], o[0], o[1], o[2], absolute=True))
    elif name == 'InttoFP_SP':
        b = Bench([32], [32, 1], lambda s, i, o: py4hw.InttoFP_SP(s, 'dut', i[0], o[0], o[1]))
    elif name == 'FPtoInt_SP':
        b = Bench([32], [32, 1, 1, 1], lambda s, i, o: py4hw.FPtoInt_SP(s, 'dut', i[0], o[0], o[1], o[2], o[3]))
    else:
        raise HarnessError('unknown block ' + name)
    b.simulator()
    _B[name] = b
    return b


def gap_class(a, b):
    g = abs(expo(a) - expo(b))
    return 'gap>=32' if g >= 32 else ('gap24-31' if g >= 24 else ('gap1-23' if g >= 1 else 'gap0'))


def mant_boundary(b):
    m = b & mask(23)
    return m in (0, 1, mask(23), 1 << 22, mask(23) - 1)


def run_case(case):
    blk = case['block']
    be = bench(blk)
    if blk in ('FPAdder_SP', 'FPMult_SP', 'FPComparator_SP', 'FPComparator_SP.abs'):
        a, b = case['a'] & mask(32), case['b'] & mask(32)
        if not (1 <= expo(a) <= 254 and 1 <= expo(b) <= 254):
            return discard('operand_not_normal', [blk])
        va, vb = dec(a), dec(b)
        gc = gap_class(a, b)
        tags = [blk, blk + ':' + gc]
        if blk.startswith('FPComparator'):
            if blk.endswith('.abs'):
                xa, xb = abs(va), abs(vb)
            else:
                xa, xb = va, vb
            exp = [int(xa > xb), int(xa == xb), int(xa < xb)]
            got = be.eval([a, b])
            if got != exp:
                return fail('{}|{}'.format(blk, 'samesign' if (a >> 31) == (b >> 31) else 'diffsign'),
                            '{}(0x{:08X}, 0x{:08X}) gt/eq/lt = {} expected {}'.format(blk, a, b, got, exp), cls=tags)
            return ok(mant_boundary(a) or mant_boundary(b) or expo(a) == expo(b), tags)
        exact = va + vb if blk == 'FPAdder_SP' else va * vb
        if not is_normal_value(exact):
            return discard('exact_result_not_normal', tags)
        out = be.eval([a, b])[0]
        out_sw = be.eval([b, a])[0]
        vo = dec(out)
        opposite = (a >> 31) != (b >> 31)
        cancel = blk == 'FPAdder_SP' and opposite and (max(ilog2(va), ilog2(vb)) - ilog2(exact)) >= 8
        nt = gc in ('gap24-31', 'gap>=32') or cancel or mant_boundary(a) or mant_boundary(b)
        if cancel:
            tags.append(blk + ':cancel>=8')
        feat = gc if blk == 'FPAdder_SP' else 'any'
        if out != out_sw:
            return fail('{}|{}|not_commutative'.format(blk, feat),
                        '{}(0x{:08X},0x{:08X}) = 0x{:08X} but swapped = 0x{:08X}'.format(blk, a, b, out, out_sw), cls=tags)
        if vo is None:
            return fail('{}|{}|nonfinite_output'.format(blk, feat),
                        '{}(0x{:08X},0x{:08X}) = 0x{:08X} (inf/NaN) exact {}'.format(blk, a, b, out, float(exact)), cls=tags)
        if blk == 'FPAdder_SP':
            if (vo < 0) != (exact < 0) or vo == 0:
                return fail('{}|{}|sign'.format(blk, feat),
                            'FPAdder(0x{:08X},0x{:08X}) = 0x{:08X} ({}) exact sum {}'.format(a, b, out, float(vo), float(exact)), cls=tags)
            larger = va if abs(va) >= abs(vb) else vb
            tol = 2 * ulp_of(larger)
            if not abs(vo - exact) < tol:
                return fail('{}|{}|error>=2ulp'.format(blk, feat),
                            'FPAdder(0x{:08X},0x{:08X}) = 0x{:08X} ({!r}) exact sum {!r}: error {} ulp of the larger operand'.format(
                                a, b, out, float(vo), float(exact), float(abs(vo - exact) / ulp_of(larger))), cls=tags)
        else:
            tol = ulp_of(exact)
            if not abs(vo - exact) < tol:
                return fail('{}|{}|error>=1ulp'.format(blk, feat),
                            'FPMult(0x{:08X},0x{:08X}) = 0x{:08X} ({!r}) exact product {!r}: error {} ulp'.format(
                                a, b, out, float(vo), float(exact), float(abs(vo - exact) / tol)), cls=tags)
        return ok(nt, tags, info={'out': out})
    if blk == 'InttoFP_SP':
        a = case['a'] & mask(32)
        v = to_signed(a, 32)
        r, p_lost = be.eval([a])
        tags = [blk]
        if v == 0:
            exp_bits, exp_lost = 0, 0
        else:
            k = abs(v).bit_length() - 1
            if k > 23:
                kept = (abs(v) >> (k - 23)) << (k - 23)
            else:
                kept = abs(v)
            exp_lost = int(kept != abs(v))
            m = (kept << 23 >> k) & mask(23) if k <= 23 else (kept >> (k - 23)) & mask(23)
            exp_bits = ((1 if v < 0 else 0) << 31) | ((127 + k) << 23) | m
        if r != exp_bits:
            return fail('InttoFP_SP|value', 'InttoFP({}) = 0x{:08X} expected 0x{:08X}'.format(v, r, exp_bits), cls=tags)
        if p_lost != exp_lost:
            return fail('InttoFP_SP|p_lost', 'InttoFP({}) p_lost = {} expected {}'.format(v, p_lost, exp_lost), cls=tags)
        av = abs(v)
        return ok(exp_lost or av & (av - 1) == 0 or (av + 1) & av == 0, tags + (['InttoFP_SP:lost'] if exp_lost else []))
    if blk == 'FPtoInt_SP':
        a = case['a'] & mask(32)
        if not 1 <= expo(a) <= 254:
            return discard('operand_not_normal', [blk])
        v = dec(a)
        r, p_lost, denorm, invalid = be.eval([a])
        tags = [blk]
        if abs(v) >= 2 ** 31:
            if invalid != 1:
                return fail('FPtoInt_SP|invalid_not_flagged', 'FPtoInt(0x{:08X} = {!r}) invalid = {}'.format(a, float(v), invalid), cls=tags)
            return ok(True, tags + ['FPtoInt_SP:invalid'])
        t = int(abs(v))          # truncation toward zero
        t = -t if v < 0 else t
        exp_lost = int(Fraction(t) != v)
        if invalid != 0:
            return fail('FPtoInt_SP|invalid_spurious', 'FPtoInt(0x{:08X} = {!r}) flagged invalid'.format(a, float(v)), cls=tags)
        if r != t & mask(32):
            return fail('FPtoInt_SP|value', 'FPtoInt(0x{:08X} = {!r}) = {} expected {}'.format(a, float(v), to_signed(r, 32), t), cls=tags)
        if p_lost != exp_lost:
            return fail('FPtoInt_SP|p_lost', 'FPtoInt(0x{:08X} = {!r}) p_lost = {} expected {}'.format(a, float(v), p_lost, exp_lost), cls=tags)
        if denorm != 0:
            return fail('FPtoInt_SP|denorm', 'FPtoInt(0x{:08X}) flags a normal number as denormal'.format(a), cls=tags)
        return ok(exp_lost or abs(t) & (abs(t) - 1) == 0 or ilog2(v) >= 23, tags + (['FPtoInt_SP:lost'] if exp_lost else []))
    raise HarnessError('unknown block ' + str(blk))


# ------------------------------------------------------------------------------------------------
MANT = st.one_of(st.sampled_from([0, 1, mask(23), 1 << 22, mask(23) - 1, 0x2AAAAA, 0x555555, (1 << 22) + 1]),
                 st.integers(0, mask(23)), st.integers(0, 22).map(lambda k: 1 << k),
                 st.integers(0, 22).map(lambda k: mask(23) ^ mask(k)))


def _mk(s, e, m):
    return (s << 31) | (e << 23) | m


def pair_strategy(max_gap):
    """two normal operands; the exponent pair is chosen by gap"""
    gap = st.one_of(st.integers(0, min(max_gap, 60)), st.sampled_from([g for g in [0, 1, 2, 22, 23, 24, 25, 26, 30, 31, 32, 33, 40, 60] if g <= max_gap]))

    def with_gap(g):
        return st.integers(1, 254 - g).flatmap(
            lambda e0: st.tuples(st.integers(0, 1), st.integers(0, 1), MANT, MANT, st.booleans()).map(
                lambda t: (_mk(t[0], e0 + g, t[2]), _mk(t[1], e0, t[3])) if t[4] else (_mk(t[1], e0, t[3]), _mk(t[0], e0 + g, t[2]))))
    by_gap = gap.flatmap(with_gap)
    # opposite sign, close magnitudes: same exponent (or +-1), mantissas differing in a few low bits
    close = st.tuples(st.integers(1, 254), st.integers(0, 1), MANT, st.integers(0, 23), st.integers(-1, 1)).map(
        lambda t: (_mk(t[1], t[0], t[2]), _mk(1 - t[1], min(254, max(1, t[0] + t[4])), t[2] ^ ((1 << t[3]) >> 1))))
    if max_gap >= 254:
        anyp = st.tuples(st.integers(1, 254), st.integers(1, 254), st.integers(0, 1), st.integers(0, 1), MANT, MANT).map(
            lambda t: (_mk(t[2], t[0], t[4]), _mk(t[3], t[1], t[5])))
        return st.one_of(by_gap, by_gap, close, anyp)
    return st.one_of(by_gap, by_gap, close)


def pairs(block, max_gap=254):
    return pair_strategy(max_gap).map(lambda p: {'block': block, 'a': p[0], 'b': p[1]})


def _ints():
    k = st.integers(0, 31)
    return st.one_of(
        st.sampled_from([0, 1, 0xFFFFFFFF, 0x7FFFFFFF, 0x80000000, 0x80000001, 0x00FFFFFF, 0x01000000, 0x01000001, 0xFF000000]),
        k.map(lambda n: 1 << n), k.map(lambda n: ((1 << n) + 1) & mask(32)), k.map(lambda n: ((1 << n) - 1) & mask(32)),
        k.map(lambda n: (-(1 << n)) & mask(32)), k.map(lambda n: (-(1 << n) - 1) & mask(32)), k.map(lambda n: (-(1 << n) + 1) & mask(32)),
        st.integers(0, mask(32))).map(lambda a: {'block': 'InttoFP_SP', 'a': a})


def _floats_for_int():
    e = st.one_of(st.integers(1, 254), st.integers(127 - 3, 127 + 34), st.sampled_from([127 + 30, 127 + 31, 127 + 32, 127 + 23, 127 + 24, 126, 127]))
    return st.tuples(st.integers(0, 1), e, MANT).map(lambda t: {'block': 'FPtoInt_SP', 'a': _mk(*t)})


_EDGE_MANT = sorted({0, 1, 2, 3, mask(23), mask(23) - 1, 1 << 22, (1 << 22) + 1, (1 << 22) - 1, 0x2AAAAA, 0x555555} |
                    {1 << k for k in range(23)} | {mask(23) ^ mask(k) for k in range(23)})


def _boundary_task(task):
    """every exponent x both signs x the edge significands: powers of two (incl. exactly +-2**31), their neighbours"""
    evals = nt = 0
    cls = {}
    fails = {}
    for e in task['exps']:
        for s_ in (0, 1):
            for m in _EDGE_MANT:
                case = {'block': task['block'], 'a': _mk(s_, e, m)}
                r = run_case(case)
                if r['discard']:
                    continue
                evals += 1
                nt += 1 if r['nt'] else 0
                for c in r['cls']:
                    cls[c] = cls.get(c, 0) + 1
                if r['fail']:
                    sg = r['fail']['sig']
                    if sg not in fails:
                        fails[sg] = {'sig': sg, 'msg': r['fail']['msg'], 'count': 1, 'case': case}
                    else:
                        fails[sg]['count'] += 1
    return {'evals': evals, 'nt': nt, 'cls': cls, 'fails': list(fails.values()), 'samples': []}


def strata(tier):
    n = 3000 if tier == 'quick' else 120000
    return [
        {'name': 'adder', 'kind': 'hyp', 'examples': n, 'strategy': lambda: pairs('FPAdder_SP'), 'run_case': run_case},
        {'name': 'multiplier', 'kind': 'hyp', 'examples': n, 'strategy': lambda: pairs('FPMult_SP'), 'run_case': run_case},
        {'name': 'comparator', 'kind': 'hyp', 'examples': n, 'strategy': lambda: pairs('FPComparator_SP'), 'run_case': run_case},
        {'name': 'comparator_abs', 'kind': 'hyp', 'examples': n, 'strategy': lambda: pairs('FPComparator_SP.abs'), 'run_case': run_case},
        {'name': 'int_to_fp', 'kind': 'hyp', 'examples': n, 'strategy': _ints, 'run_case': run_case},
        {'name': 'fp_to_int_every_exponent_edge_significands', 'kind': 'enum', 'exhaustive': True, 'run_task': _boundary_task,
         'tasks': [{'block': 'FPtoInt_SP', 'exps': list(range(e0, min(255, e0 + 16)))} for e0 in range(1, 255, 16)]},
        {'name': 'fp_to_int', 'kind': 'hyp', 'examples': n, 'strategy': _floats_for_int, 'run_case': run_case},
    ]

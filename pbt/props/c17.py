"""C17 - the UART link delivers every byte once, unchanged and in order.

System under test: UARTSerializer -> tx -> ClockGenerationAndRecovery + UARTDeserializer (loop back).
Oracles: (1) history oracle: the log of bytes accepted at the serializer's ready/valid port equals the
log of bytes delivered at the deserializer's ready/valid port; (2) an independent software 8N1
receiver over the recorded tx trace recovers the same bytes."""
import py4hw
import py4hw.logic.protocol.uart as UART
from hypothesis import strategies as st

from ..runner import ok, fail, discard, HarnessError

PROP = 'C17'
RULE = ('case = (half bit period n => 2n system clocks per bit, byte sequence, per-byte idle gap before it is offered, '
        'consumer ready on/off pattern with stalls of at most 3 bit periods). Non-trivial iff >= 3 bytes with at least '
        'one back-to-back pair (gap 0) and one gap that is not a multiple of the bit period. Stratum standard_baud_rates: the '
        'divider ratios of real boards (200, 434, 868, 5208 clocks per bit). Distinct by JSON hash.')
ASSUMPTIONS = [
    'the clock divider realises 2*floor(r/2) system clocks per bit for a requested ratio r; the software receiver samples at that realised period',
    'the link has no back-pressure: a received byte is available from its stop bit until the stop bit of the next byte (10 bit periods later when back to back); consumer stalls are sized so that the hand-over completes within that time in the worst phase alignment (stratum links: at most 3 bit periods; stratum long_consumer_stalls: up to 10 bit periods minus 8 clocks, with the consumer ready for at least 2 consecutive clocks; sample-locked consumers are ready in the clock a byte completes and finish the hand-over at the latest in the clock the next byte completes - the boundary the unchanged deserializer supports, measured by sweeping every offset)',
    'liveness is bounded: every accepted byte must be delivered within 3 frame times after the last acceptance (deterministic cycle budget)',
]


def soft_receiver(trace, P):
    """independent 8N1 receiver: wait for a falling edge, sample mid-bit at period P; returns (bytes, framing_errors)"""
    out = []
    errors = []
    t = 1
    n = len(trace)
    while t < n:
        if trace[t - 1] == 1 and trace[t] == 0:
            t0 = t
            samples = []
            last = t0 + 9 * P + P // 2
            if last >= n:
                break
            for k in range(10):
                samples.append(trace[t0 + k * P + P // 2])
            if samples[0] != 0:
                errors.append(('start', t0))
            if samples[9] != 1:
                errors.append(('stop', t0))
            out.append(sum(b << i for i, b in enumerate(samples[1:9])))
            t = last + 1
        else:
            t += 1
    return out, errors


def run_case(case):
    n = case['n']
    P = 2 * n
    data = case['bytes']
    gaps = case['gaps']
    on, off = case['ready']
    odd = case.get('odd', 0)
    sysm = py4hw.HWSystem()
    w = sysm.wire
    s_ready, s_valid, s_v = w('s_ready'), w('s_valid'), w('s_v', 8)
    d_ready, d_valid, d_v = w('d_ready'), w('d_valid'), w('d_v', 8)
    tx, desync, tx_clk_pulse, rx_sample = w('tx'), w('desync'), w('tx_clk_pulse'), w('rx_sample')
    uartFreq = 1000
    sysFreq = (2 * n + (1 if odd else 0)) * uartFreq      # ratio r = 2n or 2n+1 clocks per bit
    UART.UARTSerializer(sysm, 'ser', s_ready, s_valid, s_v, tx_clk_pulse, tx)
    UART.ClockGenerationAndRecovery(sysm, 'clk', tx, desync, tx_clk_pulse, rx_sample, sysFreq, uartFreq)
    UART.UARTDeserializer(sysm, 'des', tx, rx_sample, d_ready, d_valid, d_v, desync)
    sim = sysm.getSimulator()

    frame = 10 * P
    budget = 50 + len(data) * (frame + 4 * P) + sum(gaps) + 3 * frame + 40
    accepted, delivered = [], []
    trace = []
    pos = 0
    idle = gaps[0] if gaps else 0
    last_accept = 0
    t = 0
    react = on == 'react'          # reactive consumer: ready by default, not-ready for `off` clocks once valid is seen
    line = on == 'line'            # reactive consumer timed on the line: once valid is seen it stays not-ready until `off`
    #                                clocks after the falling edge that starts the next frame (the received byte is
    #                                available until that frame's stop bit is sampled, 9.5 bit periods after the edge);
    #                                without a next frame it gives up waiting after 12 bit periods
    sample_locked = on == 'sample'
    pulses = 0
    stall_from = stall_until = None
    stall_started = 0
    period = 1 if (react or line or sample_locked) else max(1, on + off)
    stall_left = 0
    handled = False
    waiting = False
    wait_since = 0
    frame_t0 = None               # start edge of the frame currently on the line (tracked by the harness)
    frames_seen = 0
    prev_tx = 1
    while t < budget:
        offering = pos < len(data) and idle == 0
        s_valid.put(1 if offering else 0)
        s_v.put(data[pos] if offering else 0)
        cur_tx = tx.get()
        if frame_t0 is not None and 2 * (t - frame_t0) >= 19 * P:
            frame_t0 = None                      # past the stop-bit sampling point
        if frame_t0 is None and prev_tx == 1 and cur_tx == 0 and len(accepted) > frames_seen:
            # a frame can only start for a byte the serializer has accepted (the line wire powers up low before the
            # serializer drives it idle-high: that is not a start bit)
            frame_t0 = t
            frames_seen += 1
            pulses = 0
        prev_tx = cur_tx
        if rx_sample.get() == 1:
            pulses += 1                          # 1 = start bit sample, 2..9 = data bits, 10 = stop bit
        if sample_locked:
            # ready by default; from `lo` clocks after a stop-bit sample the consumer is not ready until `hi` clocks
            # relative to the stop-bit sample of the next frame (hi <= 0; that clock is one nominal bit period after the
            # 9th sample pulse), or for 12 bit periods when no further frame arrives
            lo_, hi_ = off
            if rx_sample.get() == 1 and pulses == 10:
                stall_from = t + lo_
                stall_until = None
                stall_started = t
            if rx_sample.get() == 1 and pulses == 9 and stall_from is not None:
                stall_until = t + P + hi_
            if stall_from is not None and t >= stall_from:
                if (stall_until is not None and t >= stall_until) or t - stall_started > 12 * P:
                    stall_from = None
                    stall_until = None
            r = 0 if (stall_from is not None and t >= stall_from) else 1
        elif line:
            if d_valid.get() == 1 and not waiting and not handled:
                waiting = True
                handled = True
                wait_since = t
                wait_frame = None
            if waiting:
                if wait_frame is None and frame_t0 is not None and frame_t0 >= wait_since - P // 2:
                    wait_frame = frame_t0
                if (wait_frame is not None and t >= wait_frame + off) or t - wait_since > 12 * P:
                    waiting = False
            r = 0 if waiting else 1
            if r == 1 and d_valid.get() == 1:
                handled = False
        elif react:
            if d_valid.get() == 1 and not handled:
                handled = True
                stall_left = off
            if stall_left > 0:
                r = 0
                stall_left -= 1
            else:
                r = 1
                if d_valid.get() == 1:
                    handled = False
        else:
            r = 1 if (t % period) < on else 0
        d_ready.put(r)
        sim.propagateAll()
        took = offering and s_ready.get() == 1
        if d_valid.get() == 1 and r == 1:
            delivered.append(d_v.get())
        sim.clk(1)
        trace.append(tx.get())
        t += 1
        if took:
            accepted.append(data[pos])
            pos += 1
            idle = gaps[pos % len(gaps)] if gaps else 0
            last_accept = t
        elif idle > 0:
            idle -= 1
        if pos >= len(data) and len(delivered) >= len(accepted) and t > last_accept + frame + 2 * P:
            break
    tags = ['n={}'.format(min(n, 6)) + ('+' if n > 6 else ''), 'odd_ratio' if odd else 'even_ratio']
    ctx = 'n={} odd={} bytes={} gaps={} ready(on,off)={}'.format(n, odd, data, gaps, (on, off))
    if pos < len(data):
        return fail('serializer_stuck', 'only {} of {} bytes accepted after {} cycles; {}'.format(pos, len(data), t, ctx), cls=tags)
    soft, errs = soft_receiver([1] + trace, P)
    if soft != accepted or errs:
        kind = 'framing' if errs else ('count' if len(soft) != len(accepted) else 'value')
        return fail('line_8n1|' + kind, 'software receiver got {} (framing errors {}) but the serializer accepted {}; {}'.format(
            soft, errs, accepted, ctx), cls=tags)
    if delivered != accepted:
        if len(delivered) < len(accepted):
            kind = 'lost'
        elif len(delivered) > len(accepted):
            kind = 'duplicated'
        elif sorted(delivered) == sorted(accepted):
            kind = 'reordered'
        else:
            kind = 'corrupted'
        return fail('delivery|' + kind, 'deserializer delivered {} but the serializer accepted {}; {}'.format(delivered, accepted, ctx), cls=tags)
    b2b = any(g == 0 for g in [gaps[k % len(gaps)] for k in range(1, len(data))]) if len(data) > 1 else False
    frac = any(g % P != 0 for g in [gaps[k % len(gaps)] for k in range(len(data))])
    nt = len(data) >= 3 and b2b and frac
    return ok(nt, tags + (['back_to_back'] if b2b else []), info={'cycles': t, 'delivered': delivered})


def case_strategy(max_n, max_bytes):
    byte = st.one_of(st.sampled_from([0x00, 0xFF, 0x55, 0xAA, 0x01, 0x80, 0x7F, 0xFE]), st.integers(0, 255))
    return st.integers(2, max_n).flatmap(lambda n: st.fixed_dictionaries({
        'n': st.just(n),
        'odd': st.integers(0, 1),
        'bytes': st.lists(byte, min_size=1, max_size=max_bytes),
        'gaps': st.lists(st.one_of(st.just(0), st.integers(0, 2 * n + 3), st.integers(0, 30 * n)), min_size=1, max_size=4),
        'ready': st.tuples(st.integers(1, 4 * n), st.integers(0, 6 * n)).map(list),
    }))


def _sample_ready(n):
    return st.tuples(st.sampled_from([1, 1, 2, 3, n, 2 * n]), st.sampled_from([0, 0, -1, -1, -2, -3, -n])).map(lambda t: ['sample', list(t)])


def long_stall_strategy(max_n):
    """back-to-back bytes and a consumer that stays not-ready for most of a frame: byte k is available from its stop bit
    until the stop bit of byte k+1 (10 bit periods later), and the periodic ready pattern is sized so that the hand-over
    completes within that time in the worst phase alignment (on >= 2: first ready clock at most off+1 after the stop
    bit, delivery one clock later, at most once deferred to the next clock) - the last bit period before the deadline
    is exercised"""
    byte = st.one_of(st.sampled_from([0x00, 0xFF, 0x55, 0xAA, 0xA5, 0x3C]), st.integers(0, 255))
    return st.integers(2, max_n).flatmap(lambda n: st.fixed_dictionaries({
        'n': st.just(n),
        'odd': st.integers(0, 1),
        'bytes': st.lists(byte, min_size=3, max_size=5),
        'gaps': st.lists(st.sampled_from([0, 0, 1, 2]), min_size=1, max_size=2),
        'ready': _sample_ready(n) if n < 4 else st.one_of(st.tuples(st.integers(2, 6), st.integers(min(16 * n, 20 * n - 8), 20 * n - 8)).map(list),
                           # reactive consumer: valid is visible 2 clocks after the stop bit, the hand-over happens
                           # `stall` clocks later and must precede the next stop bit (20n clocks after the previous one)
                           st.one_of(st.integers(0, 20 * n - 6), st.integers(min(18 * n - 4, 20 * n - 6), 20 * n - 6)).map(lambda k: ['react', k]),
                           # timed on the line: hand-over k clocks after the next start edge, before its stop bit is sampled
                           # (19n clocks after the edge); the last bit period before that is over-represented
                           st.one_of(st.integers(0, 19 * n - 5), st.integers(min(17 * n, 19 * n - 5), 19 * n - 5)).map(lambda k: ['line', k]),
                           st.one_of(st.integers(0, 19 * n - 5), st.integers(min(17 * n, 19 * n - 5), 19 * n - 5)).map(lambda k: ['line', k]),
                           # locked to the sample pulses: ready when a byte completes (so it is announced), not ready from
                           # lo >= 1 clocks later until hi <= 0 clocks relative to the completion of the next byte - the
                           # hand-over may coincide with that completion
                           st.tuples(st.sampled_from([1, 1, 2, 3, n, 2 * n]), st.sampled_from([0, 0, -1, -1, -2, -3, -n])).map(lambda t: ['sample', list(t)]),
                           st.tuples(st.sampled_from([1, 1, 2, 3, n, 2 * n]), st.sampled_from([0, 0, -1, -1, -2, -3, -n])).map(lambda t: ['sample', list(t)])),
    }))


def shrink_candidates(case):
    b = case['bytes']
    for i in range(len(b)):
        if len(b) > 1:
            yield dict(case, bytes=b[:i] + b[i + 1:])
    yield dict(case, gaps=[0])
    yield dict(case, ready=[1, 0])
    if case['n'] > 2:
        yield dict(case, n=case['n'] - 1)
        yield dict(case, n=2)
    for i, x in enumerate(b):
        if x:
            yield dict(case, bytes=b[:i] + [0] + b[i + 1:])


def all_bytes_task(task):
    """every byte value once, back to back, at one ratio"""
    fails = []
    evals = 0
    for chunk in range(0, 256, 8):
        case = {'n': task['n'], 'odd': 0, 'bytes': list(range(chunk, chunk + 8)), 'gaps': [0], 'ready': [1, 0]}
        r = run_case(case)
        evals += 1
        if r['fail']:
            fails.append({'sig': r['fail']['sig'], 'msg': r['fail']['msg'], 'case': case})
    return {'evals': evals, 'nt': evals, 'cls': {'all_256_values:n={}'.format(task['n']): evals}, 'fails': fails,
            'samples': [{'case': case}]}


def standard_rate_task(task):
    """divider ratios of real boards: 50 MHz / 115200 baud = 434 clocks per bit, 100 MHz / 115200 = 868, 50 MHz / 9600 = 5208"""
    case = {'n': task['n'], 'odd': 0, 'bytes': task['bytes'], 'gaps': task.get('gaps', [0]), 'ready': [1, 0]}
    r = run_case(case)
    fails = []
    if r['fail']:
        fails.append({'sig': r['fail']['sig'], 'msg': r['fail']['msg'], 'case': case})
    return {'evals': 1, 'nt': 1, 'cls': {'clocks_per_bit={}'.format(2 * task['n']): 1}, 'fails': fails, 'samples': [{'case': case}]}


def strata(tier):
    if tier == 'quick':
        return [{'name': 'links', 'kind': 'hyp', 'examples': 96, 'strategy': lambda: case_strategy(10, 6), 'run_case': run_case},
                {'name': 'long_consumer_stalls', 'kind': 'hyp', 'examples': 96, 'strategy': lambda: long_stall_strategy(8), 'run_case': run_case},
                {'name': 'standard_baud_rates', 'kind': 'enum', 'exhaustive': False, 'run_task': standard_rate_task,
                 'tasks': [{'n': 217, 'bytes': [0xA5, 0x3C, 0x00, 0xFF]}, {'n': 217, 'bytes': [0x55], 'gaps': [700]}, {'n': 434, 'bytes': [0x81, 0x7E]},
                           {'n': 100, 'bytes': [0xA5, 0x3C, 0x00, 0xFF]}, {'n': 2604, 'bytes': [0xC3]}]},
                {'name': 'all_byte_values', 'kind': 'enum', 'exhaustive': False, 'run_task': all_bytes_task,
                 'tasks': [{'n': 2}, {'n': 3}]}]
    return [{'name': 'links', 'kind': 'hyp', 'examples': 2400, 'strategy': lambda: case_strategy(20, 8), 'run_case': run_case},
            {'name': 'long_consumer_stalls', 'kind': 'hyp', 'examples': 2400, 'strategy': lambda: long_stall_strategy(16), 'run_case': run_case},
            {'name': 'wide_ratio', 'kind': 'hyp', 'examples': 32, 'strategy': lambda: case_strategy(217, 3).filter(lambda c: c['n'] > 40), 'run_case': run_case},
            {'name': 'standard_baud_rates', 'kind': 'enum', 'exhaustive': False, 'run_task': standard_rate_task,
             'tasks': [{'n': n, 'bytes': b, 'gaps': g} for n in (100, 217, 434, 1302, 2604) for b in ([0xA5, 0x3C, 0x00, 0xFF], [0x55], [0x00, 0xFF])
                       for g in ([0], [n + 7])]},
            {'name': 'all_byte_values', 'kind': 'enum', 'exhaustive': False, 'run_task': all_bytes_task,
             'tasks': [{'n': k} for k in (2, 3, 4, 5, 8, 13)]}]

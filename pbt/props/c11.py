"""C11 - ill-formed netlists are rejected when they are built or checked.

Histories of construction calls (wire creation, block instantiation, child creation, rename, reparent,
port addition) are interpreted against a dictionary model (wire -> first driver, parent -> child names,
parent -> wire names).  After every call: a conflicting call raised, a non-conflicting call did not, and
the earlier driver / child / wire is still in place.  At the end debug.checkIntegrity must raise iff an
independent traversal finds a port attached to an undriven wire."""
import py4hw
import py4hw.debug
from py4hw.base import Logic, HWSystem, Wire
from hypothesis import strategies as st

from ..runner import ok, fail, discard, HarnessError, exception_signature
from ..cat_arith import E as ARITH
from ..cat_logic import L as LOGIC
from ..bench import Bench

PROP = 'C11'
RULE = ('stratum histories: case = list of construction calls (wires, children, library leaves, leaves inheriting their '
        'behaviour from a base class or mixin, structural blocks, renames, extra ports, drivers removed in place, integrity '
        'checks in the middle of the history) with small name pools so that conflicts occur; non-trivial '
        'iff the history contains >= 1 provoked conflict and >= 1 accepted block. Stratum blocks: case = (catalogue block, '
        'configuration, fault in {none, one input driver removed, one input driver duplicated, output driver duplicated}); '
        'non-trivial iff a fault is injected. Distinct by JSON hash.')
ASSUMPTIONS = [
    'only ordinary Wire objects are judged (BidirWire legitimately has several drivers)',
    '"stays in place" is judged for the earlier driver / child / wire only, not for the loser of a conflict',
    'top-level wires that a test bench pokes are given Constant drivers in the acceptance stratum',
    'the expected verdict of checkIntegrity is computed by an independent traversal of the built hierarchy (ports whose wire has no source)',
]

NAMES = ['a', 'b', 'c', 'd']
WNAMES = NAMES + ['clk', 'itf_a']     # wires of sub-blocks may carry the name of the system clock wire / of an interface signal


class Wrap(Logic):
    def __init__(self, parent, name):
        super().__init__(parent, name)


class DerivedBuf(py4hw.Buf):
    """a leaf that inherits its behaviour: only the constructor is specialised"""

    def __init__(self, parent, name, a, r):
        super().__init__(parent, name, a, r)
        self.tag = 'derived'


class _PassMixin:
    def propagate(self):
        self.r.put(self.a.get())


class MixinLeaf(_PassMixin, Logic):
    """behaviour supplied by a mixin"""

    def __init__(self, parent, name, a, r):
        super().__init__(parent, name)
        self.a = self.addIn('a', a)
        self.r = self.addOut('r', r)


class DerivedReg(py4hw.Reg):
    pass


def undriven_ports(obj, acc=None):
    acc = [] if acc is None else acc
    for p in list(obj.inPorts) + list(obj.outPorts):
        if isinstance(p.wire, Wire) and type(p.wire) is Wire and p.wire.getSource() is None:
            acc.append(p)
    for c in obj.children.values():
        undriven_ports(c, acc)
    return acc


def run_history(case):
    sysm = HWSystem()
    parents = [sysm]                 # index 0 = system
    m_children = {0: {}}             # parent idx -> name -> object
    m_wires = {0: {'clk': sysm._wires['clk']}}     # parent idx -> name -> Wire (live registrations)
    wires = []                       # created wires (live ones carry 'alive')
    w_info = []                      # dict(parent=idx, name, alive, driver)
    itfs = {}                        # parent idx -> Interface
    itf_sigs = {}                    # parent idx -> {(signal name, is source-to-sink)}
    conflicts = 0
    accepted_blocks = 0
    tags = set()

    def check_model(step, op):
        for pi, par in enumerate(parents):
            for name, obj in m_children[pi].items():
                if par.children.get(name) is not obj:
                    return ('child_replaced', 'after step {} {}: child {!r} of parent #{} is no longer the first object registered under that name'.format(step, op, name, pi))
            for name, w in m_wires[pi].items():
                if par._wires.get(name) is not w:
                    return ('wire_replaced', 'after step {} {}: wire {!r} of parent #{} is no longer the wire first registered under that name'.format(step, op, name, pi))
        for wi, info in enumerate(w_info):
            src = wires[wi].getSource()
            if info['driver'] is None:
                if src is not None and not info.get('tainted'):
                    return ('phantom_driver', 'after step {} {}: wire #{} has a source although no accepted block drives it'.format(step, op, wi))
            else:
                if src is None or src.parent is not info['driver']:
                    return ('driver_replaced', 'after step {} {}: wire #{} is no longer driven by its first driver'.format(step, op, wi))
        return None

    for step, op in enumerate(case['ops']):
        kind = op[0]
        raised = None
        expect_raise = False
        why = ''
        try:
            if kind == 'wire':
                pi, name, width = op[1] % len(parents), WNAMES[op[2] % len(WNAMES)], 1 + op[3] % 8
                expect_raise = name in parents[pi]._wires
                why = 'duplicate wire name'
                w = None
                try:
                    w = Wire(parents[pi], name, width)
                finally:
                    if w is not None and not expect_raise:
                        wires.append(w)
                        w_info.append({'parent': pi, 'name': name, 'alive': True, 'driver': None})
                        m_wires[pi][name] = w
            elif kind == 'itf_add':
                # a signal added to an Interface object of the parent: creates the wire <itf>_<signal> in that parent
                from py4hw.base import Interface
                pi, sname, width = op[1] % len(parents), NAMES[op[2] % len(NAMES)], 1 + op[4] % 8
                itf = itfs.get(pi)
                if itf is None:
                    itf = itfs[pi] = Interface(parents[pi], 'itf')
                wname = 'itf_' + sname
                expect_raise = wname in parents[pi]._wires
                why = 'duplicate wire name'
                w = None
                try:
                    w = itf.addSourceToSink(sname, width) if op[3] % 2 else itf.addSinkToSource(sname, width)
                finally:
                    if w is not None and not expect_raise:
                        wires.append(w)
                        w_info.append({'parent': pi, 'name': wname, 'alive': True, 'driver': None})
                        m_wires[pi][wname] = w
                        itf_sigs.setdefault(pi, set()).add((sname, op[3] % 2))
                tags.add('interface_signal')
            elif kind == 'itf_remove':
                # the signal leaves the interface; its wire stays in the netlist (and keeps its name)
                pi = op[1] % len(parents)
                cands = sorted(itf_sigs.get(pi, ()))
                if not cands:
                    continue
                sname, s2s = cands[op[2] % len(cands)]
                if s2s:
                    itfs[pi].removeSourceToSink(sname)
                else:
                    itfs[pi].removeSinkToSource(sname)
                itf_sigs[pi].discard((sname, s2s))
                tags.add('interface_signal_removed')
            elif kind == 'child':
                pi, name = op[1] % len(parents), 'k' + NAMES[op[2] % len(NAMES)]
                expect_raise = name in parents[pi].children
                why = 'duplicate child name'
                c = Wrap(parents[pi], name)
                parents.append(c)
                m_children[len(parents) - 1] = {}
                m_wires[len(parents) - 1] = {}
                m_children[pi][name] = c
            elif kind == 'gate':
                if not wires:
                    continue
                pi, name = op[1] % len(parents), 'u' + NAMES[op[2] % len(NAMES)]
                gk = op[3] % 4
                ins = [wires[i % len(wires)] for i in op[4]]
                oi = op[5] % len(wires)
                out = wires[oi]
                dup_name = name in parents[pi].children
                driven = w_info[oi]['driver'] is not None or out.getSource() is not None
                expect_raise = dup_name or driven
                why = 'duplicate child name' if dup_name else 'second driver on a wire'
                obj = None
                if gk == 0:
                    obj = py4hw.Constant(parents[pi], name, op[6] % 256, out)
                elif gk == 1:
                    obj = py4hw.Buf(parents[pi], name, ins[0], out)
                elif gk == 2:
                    obj = py4hw.And2(parents[pi], name, ins[0], ins[1 % len(ins)], out)
                else:
                    obj = py4hw.Reg(parents[pi], name, ins[0], out)
                w_info[oi]['driver'] = obj
                m_children[pi][name] = obj
                accepted_blocks += 1
            elif kind == 'derived':
                # like 'gate', with leaves whose clock / propagate is inherited from a base class or a mixin
                if not wires:
                    continue
                pi, name = op[1] % len(parents), 'v' + NAMES[op[2] % len(NAMES)]
                a = wires[op[4] % len(wires)]
                oi = op[5] % len(wires)
                out = wires[oi]
                dup_name = name in parents[pi].children
                driven = w_info[oi]['driver'] is not None or out.getSource() is not None
                expect_raise = dup_name or driven
                why = 'duplicate child name' if dup_name else 'second driver on a wire'
                cls = [DerivedBuf, MixinLeaf, DerivedReg][op[3] % 3]
                obj = cls(parents[pi], name, a, out)
                w_info[oi]['driver'] = obj
                m_children[pi][name] = obj
                accepted_blocks += 1
                tags.add('derived_leaf')
            elif kind == 'check':
                # integrity verdict in the middle of the history (and again at the end)
                bad_now = undriven_ports(sysm)
                try:
                    py4hw.debug.checkIntegrity(sysm)
                    v = False
                except Exception:
                    v = True
                if v != bool(bad_now):
                    if bad_now:
                        return fail('integrity_accepts_undriven|mid_history', 'step {}: checkIntegrity accepted a hierarchy in which {} is attached to an undriven wire ; history {}'.format(
                            step, bad_now[0].getFullPath(), case['ops'][:step + 1]), cls=sorted(tags))
                    return fail('integrity_rejects_driven|mid_history', 'step {}: checkIntegrity raised although every port wire has a driver ; history {}'.format(
                        step, case['ops'][:step + 1]), cls=sorted(tags))
                tags.add('checked_mid_history')
                continue
            elif kind == 'remove':
                # a driver is removed in place (block replaced: `w.source = None; del parent.children[name]`, the idiom of
                # the repository's hardware-in-the-loop tests); the wire is undriven again and may take a new driver
                cands = [(pi, nm, o) for pi in sorted(m_children) for nm, o in sorted(m_children[pi].items())
                         if not isinstance(o, Wrap) and any(inf['driver'] is o for inf in w_info)]
                if not cands:
                    continue
                pi, nm, obj = cands[op[1] % len(cands)]
                for wi, inf in enumerate(w_info):
                    if inf['driver'] is obj:
                        wires[wi].source = None
                        inf['driver'] = None
                del parents[pi].children[nm]
                del m_children[pi][nm]
                tags.add('driver_removed_in_place')
            elif kind == 'structural':
                if not wires:
                    continue
                pi, name = op[1] % len(parents), 's' + NAMES[op[2] % len(NAMES)]
                a, b_ = wires[op[3] % len(wires)], wires[op[4] % len(wires)]
                oi = op[5] % len(wires)
                out = wires[oi]
                dup_name = name in parents[pi].children
                driven = w_info[oi]['driver'] is not None or out.getSource() is not None
                same_w = a.getWidth() == b_.getWidth()
                expect_raise = dup_name or driven
                why = 'duplicate child name' if dup_name else 'second driver on a wire'
                obj = py4hw.Nand2(parents[pi], name, a, b_, out)
                # the leaf that really drives `out` is inside the structural block
                w_info[oi]['driver'] = out.getSource().parent
                m_children[pi][name] = obj
                accepted_blocks += 1
            elif kind in ('rename', 'reparent', 'reparentAndRename'):
                live = [i for i, inf in enumerate(w_info) if inf['alive']]
                if not live:
                    continue
                wi = live[op[1] % len(live)]
                info = w_info[wi]
                newname = NAMES[op[2] % len(NAMES)] if kind != 'reparent' else info['name']
                newpar = op[3] % len(parents) if kind != 'rename' else info['parent']
                target = parents[newpar]
                if (newpar, newname) == (info['parent'], info['name']):
                    continue        # renaming a wire to itself is not a conflict scenario of the property
                expect_raise = newname in target._wires
                why = 'wire name already used in the target scope'
                if expect_raise:
                    # the loser drops out of the registry (not judged); the earlier wire must stay
                    info['alive'] = False
                    del m_wires[info['parent']][info['name']]
                if kind == 'rename':
                    wires[wi].rename(newname)
                elif kind == 'reparent':
                    wires[wi].reparent(target)
                else:
                    wires[wi].reparentAndRename(target, newname)
                del m_wires[info['parent']][info['name']]
                info['parent'], info['name'] = newpar, newname
                m_wires[newpar][newname] = wires[wi]
            elif kind == 'dupout':
                # a second out port of an *existing* primitive block on some wire: a second driver all the same
                prims = [(pi, nm, o) for pi in m_children for nm, o in m_children[pi].items()
                         if isinstance(o, Logic) and o.isPrimitive()]
                if not prims or not wires:
                    continue
                pi, nm, obj = prims[op[1] % len(prims)]
                oi = op[2] % len(wires)
                out = wires[oi]
                expect_raise = w_info[oi]['driver'] is not None or out.getSource() is not None
                why = 'second driver on a wire'
                obj.addOut('x%d' % step, out)
                w_info[oi]['driver'] = obj
            elif kind == 'port':
                if not wires or len(parents) < 2:
                    continue
                pi = 1 + op[1] % (len(parents) - 1)
                w = wires[op[3] % len(wires)]
                if op[2] % 2:
                    parents[pi].addIn('p%d' % step, w)
                else:
                    parents[pi].addOut('p%d' % step, w)
            else:
                raise HarnessError('unknown op ' + str(kind))
        except HarnessError:
            raise
        except Exception as e:
            raised = e
        if expect_raise:
            conflicts += 1
            tags.add('conflict:' + why)
            if raised is None:
                return fail('conflict_not_rejected|{}|{}'.format(kind, why), 'step {} {} should have raised ({}) but was accepted'.format(step, op, why), cls=sorted(tags))
            if kind in ('gate', 'structural') and 'obj' in dir():
                pass
        else:
            if raised is not None:
                es = exception_signature(raised) or type(raised).__name__
                return fail('wellformed_rejected|{}|{}'.format(kind, es), 'step {} {} is well formed but raised {!r}'.format(step, op, raised), cls=sorted(tags))
        # a rejected instantiation may leave a half-built child behind; adopt it in the model as it is (it is the
        # *earlier* objects that are judged), and mark wires it managed to drive as tainted
        if expect_raise and kind in ('gate', 'structural'):
            for wi, info in enumerate(w_info):
                if info['driver'] is None and wires[wi].getSource() is not None:
                    info['tainted'] = True
        err = check_model(step, op)
        if err:
            return fail(err[0] + '|' + kind, err[1] + ' ; history {}'.format(case['ops'][:step + 1]), cls=sorted(tags))
    # final integrity verdict
    bad = undriven_ports(sysm)
    try:
        from ..runner import quiet
        py4hw.debug.checkIntegrity(sysm)
        verdict = False
    except Exception:
        verdict = True
    if verdict != bool(bad):
        if bad:
            return fail('integrity_accepts_undriven', 'checkIntegrity accepted a hierarchy in which {} is attached to an undriven wire'.format(bad[0].getFullPath()), cls=sorted(tags))
        return fail('integrity_rejects_driven', 'checkIntegrity raised although every port wire has a driver', cls=sorted(tags))
    tags.add('integrity:' + ('raises' if verdict else 'accepts'))
    return ok(conflicts >= 1 and accepted_blocks >= 1, sorted(tags))


def run_block(case):
    cat = ARITH if case['block'] in ARITH else LOGIC
    entry = cat.get(case['block'])
    if entry is None:
        raise HarnessError('unknown block')
    cfg = case['cfg']
    fault = case['fault']
    tags = ['fault:' + fault]
    try:
        b = Bench(entry.inw(cfg), entry.outw(cfg), lambda s, i, o: entry.build(s, i, o, cfg))
    except Exception:
        return discard('rejected_by_constructor')
    if isinstance(b.block, list):
        return discard('helper_entry')
    k = case['which'] % max(1, len(b.ins))
    err = None
    for i, w in enumerate(b.ins):
        if fault == 'missing_input' and i == k:
            continue
        py4hw.Constant(b.sys, 'drv%d' % i, 0, w)
    if fault == 'dup_input' and b.ins:
        try:
            py4hw.Constant(b.sys, 'dup', 1, b.ins[k])
            return fail('second_driver_accepted|input', '{} {}: a second Constant on input {} was accepted'.format(case['block'], cfg, k), cls=tags)
        except Exception:
            pass
    if fault == 'dup_output':
        ko = case['which'] % len(b.outs)
        if b.outs[ko].getSource() is not None:
            try:
                py4hw.Constant(b.sys, 'dupo', 1, b.outs[ko])
                return fail('second_driver_accepted|output', '{} {}: a second driver on output {} was accepted'.format(case['block'], cfg, ko), cls=tags)
            except Exception:
                pass
    bad = undriven_ports(b.sys)
    try:
        py4hw.debug.checkIntegrity(b.sys)
        verdict = False
    except Exception:
        verdict = True
    if fault == 'missing_input' and b.ins:
        # the input may be unused by the block (e.g. a select input of a 1-way structure): judge by the traversal
        pass
    if verdict != bool(bad):
        if bad:
            return fail('integrity_accepts_undriven|' + fault, '{} {}: accepted although {} is attached to an undriven wire'.format(case['block'], cfg, bad[0].getFullPath()), cls=tags)
        return fail('integrity_rejects_driven|' + fault, '{} {}: rejected although all port wires are driven'.format(case['block'], cfg), cls=tags)
    if fault == 'none' and verdict:
        return fail('block_rejected', '{} {} with all inputs driven is rejected by checkIntegrity'.format(case['block'], cfg), cls=tags)
    if fault == 'missing_input' and b.ins and not verdict:
        return fail('missing_driver_accepted', '{} {} with input {} undriven is accepted'.format(case['block'], cfg, k), cls=tags)
    return ok(fault != 'none', tags + [case['block']])


def run_case(case):
    if 'ops' in case:
        return run_history(case)
    return run_block(case)


def _op():
    i = st.integers(0, 30)
    return st.one_of(
        st.tuples(st.just('wire'), i, i, i).map(list),
        st.tuples(st.just('wire'), i, i, i).map(list),
        st.tuples(st.just('child'), i, i).map(list),
        st.tuples(st.just('gate'), i, i, i, st.lists(i, min_size=1, max_size=2), i, i).map(list),
        st.tuples(st.just('gate'), i, i, i, st.lists(i, min_size=1, max_size=2), i, i).map(list),
        st.tuples(st.just('structural'), i, i, i, i, i).map(list),
        st.tuples(st.just('rename'), i, i, i).map(list),
        st.tuples(st.just('reparent'), i, i, i).map(list),
        st.tuples(st.just('reparentAndRename'), i, i, i).map(list),
        st.tuples(st.just('port'), i, i, i).map(list),
        st.tuples(st.just('dupout'), i, i).map(list),
        st.tuples(st.just('derived'), i, i, i, i, i).map(list),
        st.tuples(st.just('check')).map(list),
        st.tuples(st.just('itf_add'), i, i, i, i).map(list),
        st.tuples(st.just('itf_remove'), i, i).map(list),
        st.tuples(st.just('remove'), i).map(list),
    )


def history_strategy(max_len):
    return st.lists(_op(), min_size=3, max_size=max_len).map(lambda ops: {'ops': ops})


def block_strategy():
    names = sorted(list(ARITH.keys()) + list(LOGIC.keys()))
    names = [n for n in names if not n.startswith('hlp.')]

    def for_block(n):
        cat = ARITH if n in ARITH else LOGIC
        return st.tuples(cat[n].strat, st.sampled_from(['none', 'missing_input', 'dup_input', 'dup_output']), st.integers(0, 7)).map(
            lambda t: {'block': n, 'cfg': t[0], 'fault': t[1], 'which': t[2]})
    return st.sampled_from(names).flatmap(for_block)


def shrink_candidates(case):
    if 'ops' not in case:
        return
    ops = case['ops']
    for i in range(len(ops)):
        yield {'ops': ops[:i] + ops[i + 1:]}


def strata(tier):
    a, b, L = (1500, 1500, 30) if tier == 'quick' else (30000, 30000, 60)
    return [
        {'name': 'histories', 'kind': 'hyp', 'examples': a, 'strategy': lambda: history_strategy(L), 'run_case': run_case},
        {'name': 'blocks_single_fault', 'kind': 'hyp', 'examples': b, 'strategy': block_strategy, 'run_case': run_case},
    ]

"""Catalogue of logic / selection / comparison blocks (property C08).  References are truth-table
functions written from the docstrings; they never call py4hw."""
import itertools

import py4hw
from hypothesis import strategies as st

from .bench import mask, to_signed
from .cat_arith import Entry, prod_widths, cfg_st, width_st, rel

L = {}


def reg(e):
    L[e.name] = e
    return e


def _same(W):
    return ({'w': w} for w in range(1, W + 1))


_same_st = st.fixed_dictionaries({'w': width_st()})


def gate2(name, ctor, fn):
    reg(Entry(name, ['w'], _same, _same_st,
              lambda c: [c['w'], c['w']], lambda c: [c['w']],
              lambda sys, i, o, c: ctor(sys, 'dut', i[0], i[1], o[0]),
              lambda c, v: [fn(v[0], v[1])], cls=lambda c: ''))


gate2('And2', py4hw.And2, lambda a, b: a & b)
gate2('Or2', py4hw.Or2, lambda a, b: a | b)
gate2('Xor2', py4hw.Xor2, lambda a, b: a ^ b)
gate2('Nand2', py4hw.Nand2, lambda a, b: ~(a & b))
gate2('Nor2', py4hw.Nor2, lambda a, b: ~(a | b))

# primitive gates with a result width different from the operand width: the result is the
# operation on the integers, reduced modulo 2^wr
reg(Entry('And2.mixed', ['wa', 'wb', 'wr'], lambda W: prod_widths(['wa', 'wb', 'wr'], W), cfg_st(['wa', 'wb', 'wr']),
          lambda c: [c['wa'], c['wb']], lambda c: [c['wr']],
          lambda sys, i, o, c: py4hw.And2(sys, 'dut', i[0], i[1], o[0]), lambda c, v: [v[0] & v[1]]))
reg(Entry('Or2.mixed', ['wa', 'wb', 'wr'], lambda W: prod_widths(['wa', 'wb', 'wr'], W), cfg_st(['wa', 'wb', 'wr']),
          lambda c: [c['wa'], c['wb']], lambda c: [c['wr']],
          lambda sys, i, o, c: py4hw.Or2(sys, 'dut', i[0], i[1], o[0]), lambda c, v: [v[0] | v[1]]))
reg(Entry('Not', ['wa', 'wr'], lambda W: prod_widths(['wa', 'wr'], W), cfg_st(['wa', 'wr']),
          lambda c: [c['wa']], lambda c: [c['wr']],
          lambda sys, i, o, c: py4hw.Not(sys, 'dut', i[0], o[0]), lambda c, v: [~v[0]]))
reg(Entry('Buf', ['wa', 'wr'], lambda W: prod_widths(['wa', 'wr'], W), cfg_st(['wa', 'wr']),
          lambda c: [c['wa']], lambda c: [c['wr']],
          lambda sys, i, o, c: py4hw.Buf(sys, 'dut', i[0], o[0]), lambda c, v: [v[0]]))


# ---- n-ary gates -----------------------------------------------------------------------------------
def _nary_small(lo):
    def f(W):
        for w in range(1, W + 1):
            for n in range(lo, 7):
                yield {'w': w, 'n': n}
    return f


def _nary_st(lo):
    return st.fixed_dictionaries({'w': width_st(1, 64), 'n': st.integers(lo, 9)})


def nary(name, ctor, fn, lo=1):
    def ref(c, v):
        acc = v[0]
        for x in v[1:]:
            acc = fn(acc, x)
        return [acc]
    reg(Entry(name, ['w', 'n'], _nary_small(lo), _nary_st(lo),
              lambda c: [c['w']] * c['n'], lambda c: [c['w']],
              lambda sys, i, o, c: ctor(sys, 'dut', list(i), o[0]), ref,
              cls=lambda c: 'n={}'.format(min(c['n'], 4))))


nary('And', py4hw.And, lambda a, b: a & b)
nary('Or', py4hw.Or, lambda a, b: a | b)
nary('Xor', py4hw.Xor, lambda a, b: a ^ b, lo=2)
reg(Entry('Nor', ['w', 'n'], _nary_small(1), _nary_st(1),
          lambda c: [c['w']] * c['n'], lambda c: [c['w']],
          lambda sys, i, o, c: py4hw.Nor(sys, 'dut', list(i), o[0]),
          lambda c, v: [~_fold_or(v)], cls=lambda c: 'n={}'.format(min(c['n'], 4))))


def _fold_or(v):
    acc = 0
    for x in v:
        acc |= x
    return acc


reg(Entry('AndBits', ['w'], lambda W: ({'w': w} for w in range(1, 2 * W + 3)), st.fixed_dictionaries({'w': width_st(1, 40)}),
          lambda c: [c['w']], lambda c: [1],
          lambda sys, i, o, c: py4hw.AndBits(sys, 'dut', i[0], o[0]),
          lambda c, v: [1 if v[0] == mask(c['w']) else 0], cls=lambda c: ''))
reg(Entry('OrBits', ['w'], lambda W: ({'w': w} for w in range(1, 2 * W + 3)), st.fixed_dictionaries({'w': width_st(1, 40)}),
          lambda c: [c['w']], lambda c: [1],
          lambda sys, i, o, c: py4hw.OrBits(sys, 'dut', i[0], o[0]),
          lambda c, v: [1 if v[0] != 0 else 0], cls=lambda c: ''))


# ---- bit manipulation ---------------------------------------------------------------------------------
def _bit_small(W):
    for wa in range(1, 2 * W + 1):
        for bit in range(wa):
            for wr in (1, 2):
                yield {'wa': wa, 'bit': bit, 'wr': wr}


_bit_st = width_st().flatmap(lambda wa: st.fixed_dictionaries(
    {'wa': st.just(wa), 'bit': st.integers(0, wa - 1), 'wr': st.sampled_from([1, 1, 2, 8])}))
reg(Entry('Bit', ['wa', 'bit', 'wr'], _bit_small, _bit_st,
          lambda c: [c['wa']], lambda c: [c['wr']],
          lambda sys, i, o, c: py4hw.Bit(sys, 'dut', i[0], c['bit'], o[0]),
          lambda c, v: [(v[0] >> c['bit']) & 1], cls=lambda c: 'msb={}'.format(c['bit'] == c['wa'] - 1)))


def _range_small(W):
    for wa in range(1, 2 * W + 1):
        for low in range(wa):
            for high in range(low, wa):
                for wr in sorted({1, high - low + 1, high - low + 2, max(1, high - low)}):
                    yield {'wa': wa, 'high': high, 'low': low, 'wr': wr}


_range_st = width_st().flatmap(lambda wa: st.integers(0, wa - 1).flatmap(
    lambda low: st.integers(low, wa - 1).flatmap(
        lambda high: st.fixed_dictionaries({'wa': st.just(wa), 'low': st.just(low), 'high': st.just(high),
                                            'wr': st.one_of(st.just(high - low + 1), width_st())}))))
reg(Entry('Range', ['wa', 'high', 'low', 'wr'], _range_small, _range_st,
          lambda c: [c['wa']], lambda c: [c['wr']],
          lambda sys, i, o, c: py4hw.Range(sys, 'dut', i[0], c['high'], c['low'], o[0]),
          lambda c, v: [(v[0] >> c['low']) & mask(c['high'] - c['low'] + 1)],
          cls=lambda c: 'wr_{}_span'.format(rel(c['wr'], c['high'] - c['low'] + 1))))

reg(Entry('BitsLSBF', ['w'], lambda W: ({'w': w} for w in range(1, 2 * W + 3)), st.fixed_dictionaries({'w': width_st(1, 40)}),
          lambda c: [c['w']], lambda c: [1] * c['w'],
          lambda sys, i, o, c: py4hw.BitsLSBF(sys, 'dut', i[0], list(o)),
          lambda c, v: [(v[0] >> k) & 1 for k in range(c['w'])], cls=lambda c: ''))
reg(Entry('BitsMSBF', ['w'], lambda W: ({'w': w} for w in range(1, 2 * W + 3)), st.fixed_dictionaries({'w': width_st(1, 40)}),
          lambda c: [c['w']], lambda c: [1] * c['w'],
          lambda sys, i, o, c: py4hw.BitsMSBF(sys, 'dut', i[0], list(o)),
          lambda c, v: [(v[0] >> (c['w'] - 1 - k)) & 1 for k in range(c['w'])], cls=lambda c: ''))


def _concat_small(W):
    for n in range(1, 4):
        for ws in itertools.product(range(1, W + 1), repeat=n):
            for slack in (0, 1, 3):
                yield {'ws': list(ws), 'wr': sum(ws) + slack}


_concat_st = st.lists(st.integers(1, 20), min_size=1, max_size=6).flatmap(
    lambda ws: st.fixed_dictionaries({'ws': st.just(ws), 'wr': st.sampled_from([sum(ws), sum(ws), sum(ws) + 1, sum(ws) + 7])}))


def _cat_ref(msbf):
    def f(c, v):
        vals = list(zip(v, c['ws']))
        if not msbf:
            vals = vals[::-1]
        acc = 0
        for x, w in vals:
            acc = (acc << w) | x
        return [acc]
    return f


reg(Entry('ConcatenateLSBF', ['ws', 'wr'], _concat_small, _concat_st,
          lambda c: list(c['ws']), lambda c: [c['wr']],
          lambda sys, i, o, c: py4hw.ConcatenateLSBF(sys, 'dut', list(i), o[0]), _cat_ref(False),
          cls=lambda c: 'n={},slack={}'.format(min(len(c['ws']), 3), c['wr'] > sum(c['ws']))))
reg(Entry('ConcatenateMSBF', ['ws', 'wr'], _concat_small, _concat_st,
          lambda c: list(c['ws']), lambda c: [c['wr']],
          lambda sys, i, o, c: py4hw.ConcatenateMSBF(sys, 'dut', list(i), o[0]), _cat_ref(True),
          cls=lambda c: 'n={},slack={}'.format(min(len(c['ws']), 3), c['wr'] > sum(c['ws']))))

reg(Entry('Repeat', ['wr'], lambda W: ({'wr': w} for w in range(1, 3 * W + 1)), st.fixed_dictionaries({'wr': width_st()}),
          lambda c: [1], lambda c: [c['wr']],
          lambda sys, i, o, c: py4hw.Repeat(sys, 'dut', i[0], o[0]),
          lambda c, v: [mask(c['wr']) if v[0] else 0], cls=lambda c: ''))
reg(Entry('BufEnable', ['w'], _same, _same_st,
          lambda c: [c['w'], 1], lambda c: [c['w']],
          lambda sys, i, o, c: py4hw.BufEnable(sys, 'dut', i[0], i[1], o[0]),
          lambda c, v: [v[0] if v[1] else 0], cls=lambda c: ''))


# ---- selectors --------------------------------------------------------------------------------------------
def _mux2_small(W):
    for w in range(1, W + 1):
        for ws in (1, 2, 3):
            yield {'w': w, 'ws': ws}


reg(Entry('Mux2', ['w', 'ws'], _mux2_small,
          st.fixed_dictionaries({'w': width_st(), 'ws': st.sampled_from([1, 1, 2, 3, 8])}),
          lambda c: [c['ws'], c['w'], c['w']], lambda c: [c['w']],
          lambda sys, i, o, c: py4hw.Mux2(sys, 'dut', i[0], i[1], i[2], o[0]),
          # "Only the LSB of the select signal is considered; higher bits are ignored."
          lambda c, v: [v[2] if (v[0] & 1) else v[1]], cls=lambda c: 'selw={}'.format(min(c['ws'], 2))))


def _mux_small(W):
    for k in range(1, 4):
        for w in range(1, (W if k < 3 else 1) + 1):
            yield {'k': k, 'w': w}


reg(Entry('Mux', ['k', 'w'], _mux_small,
          st.fixed_dictionaries({'k': st.integers(1, 4), 'w': width_st(1, 64)}),
          lambda c: [c['k']] + [c['w']] * (1 << c['k']), lambda c: [c['w']],
          lambda sys, i, o, c: py4hw.Mux(sys, 'dut', i[0], list(i[1:]), o[0]),
          lambda c, v: [v[1 + v[0]]], cls=lambda c: 'k={}'.format(c['k'])))

reg(Entry('Demux', ['k', 'w'], _mux_small,
          st.fixed_dictionaries({'k': st.integers(1, 4), 'w': width_st(1, 64)}),
          lambda c: [c['w'], c['k']], lambda c: [c['w']] * (1 << c['k']),
          lambda sys, i, o, c: py4hw.Demux(sys, 'dut', i[0], i[1], list(o)),
          lambda c, v: [v[0] if v[1] == j else 0 for j in range(1 << c['k'])], cls=lambda c: 'k={}'.format(c['k'])))

reg(Entry('Decoder', ['k'], lambda W: ({'k': k} for k in range(1, 5)),
          st.fixed_dictionaries({'k': st.integers(1, 6)}),
          lambda c: [c['k']], lambda c: [1] * (1 << c['k']),
          lambda sys, i, o, c: py4hw.Decoder(sys, 'dut', i[0], list(o)),
          lambda c, v: [1 if v[0] == j else 0 for j in range(1 << c['k'])], cls=lambda c: ''))


def _sel_small(W):
    for n in range(1, 5):
        for w in range(1, (W if n < 4 else 1) + 1):
            yield {'n': n, 'w': w}


_sel_st = st.fixed_dictionaries({'n': st.integers(1, 7), 'w': width_st(1, 64)})


def _onehot_ok(sels):
    return sum(1 for s in sels if s) <= 1


def _ohmux_ref(c, v):
    n = c['n']
    sels, ins = v[:n], v[n:]
    if not _onehot_ok(sels):
        return None          # documented for one-hot select vectors only
    return [sum(x for s, x in zip(sels, ins) if s)]


for _nm, _ct in (('OneHotMux', py4hw.OneHotMux), ('Select', py4hw.Select)):
    reg(Entry(_nm, ['n', 'w'], _sel_small, _sel_st,
              lambda c: [1] * c['n'] + [c['w']] * c['n'], lambda c: [c['w']],
              (lambda ct: lambda sys, i, o, c: ct(sys, 'dut', list(i[:c['n']]), list(i[c['n']:]), o[0]))(_ct),
              _ohmux_ref, cls=lambda c: 'n={}'.format(min(c['n'], 3))))

reg(Entry('OneHotDemux', ['n', 'w'], _sel_small, _sel_st,
          lambda c: [1] * c['n'] + [c['w']], lambda c: [c['w']] * c['n'],
          lambda sys, i, o, c: py4hw.OneHotDemux(sys, 'dut', list(i[:c['n']]), i[c['n']], list(o)),
          lambda c, v: (None if not _onehot_ok(v[:c['n']]) else [v[c['n']] if s else 0 for s in v[:c['n']]]),
          cls=lambda c: 'n={}'.format(min(c['n'], 3))))


def _seldef_ref(c, v):
    n = c['n']
    sels, ins, default = v[:n], v[n:2 * n], v[2 * n]
    for s, x in zip(sels, ins):
        if s & 1:
            return [x]
    return [default]


def _seldef_small(W):
    for n in range(1, 4):
        for w in range(1, (W if n < 3 else 1) + 1):
            yield {'n': n, 'w': w}
    # inputs and default narrower than the result (hw_select_default sizes r as the widest input)
    for ws in ([1, 3], [3, 1], [2, 3, 1], [1, 1, 3]):
        for wd in (1, 3):
            yield {'n': len(ws), 'w': 3, 'ws': ws, 'wd': wd}


@st.composite
def _seldef_st(draw):
    c = draw(_sel_st)
    if draw(st.booleans()):
        c = dict(c, ws=[draw(st.integers(1, c['w'])) for _ in range(c['n'])], wd=draw(st.integers(1, c['w'])))
    return c


def _seldef_ws(c):
    return list(c.get('ws') or [c['w']] * c['n']), c.get('wd') or c['w']


reg(Entry('SelectDefault', ['n', 'w'], _seldef_small, _seldef_st(),
          lambda c: [1] * c['n'] + _seldef_ws(c)[0] + [_seldef_ws(c)[1]], lambda c: [c['w']],
          lambda sys, i, o, c: py4hw.SelectDefault(sys, 'dut', list(i[:c['n']]), list(i[c['n']:2 * c['n']]), i[2 * c['n']], o[0]),
          _seldef_ref, cls=lambda c: 'n={}{}'.format(min(c['n'], 3), ',mixed_widths' if c.get('ws') else '')))


def _prio_ref(c, v):
    # Behaviour pinned by the existing unit test and the in-code comment: with inc_priority=True the
    # highest index wins, with False the lowest index wins.  (The docstring says the opposite; see DESIGN.)
    n = c['n']
    idx = [k for k in range(n) if v[k]]
    out = [0] * n
    if idx:
        out[max(idx) if c['inc'] else min(idx)] = 1
    return out


reg(Entry('PriorityEncoder', ['n', 'inc'], lambda W: ({'n': n, 'inc': inc} for n in range(1, 9) for inc in (True, False)),
          st.fixed_dictionaries({'n': st.integers(1, 14), 'inc': st.booleans()}),
          lambda c: [1] * c['n'], lambda c: [1] * c['n'],
          lambda sys, i, o, c: py4hw.PriorityEncoder(sys, 'dut', list(i), list(o), inc_priority=c['inc']),
          _prio_ref, cls=lambda c: 'inc={}'.format(c['inc'])))


def _minterm_small(W):
    for n in range(1, 5):
        for value in range(1 << n):
            yield {'n': n, 'value': value}


reg(Entry('Minterm', ['n', 'value'], _minterm_small,
          st.integers(1, 10).flatmap(lambda n: st.fixed_dictionaries({'n': st.just(n), 'value': st.integers(0, (1 << n) - 1)})),
          lambda c: [1] * c['n'], lambda c: [1],
          lambda sys, i, o, c: py4hw.Minterm(sys, 'dut', list(i), c['value'], o[0]),
          lambda c, v: [1 if all(v[k] == ((c['value'] >> k) & 1) for k in range(c['n'])) else 0],
          cls=lambda c: 'n={}'.format(min(c['n'], 3))))


def _som_small(W):
    for w in range(1, 4):
        allm = list(range(1 << w))
        for r in range(1, min(len(allm), 3) + 1):
            for ms in itertools.combinations(allm, r):
                yield {'w': w, 'ms': list(ms)}
        yield {'w': w, 'ms': allm}


reg(Entry('SumOfMinterms', ['w', 'ms'], _som_small,
          st.integers(1, 8).flatmap(lambda w: st.fixed_dictionaries(
              {'w': st.just(w), 'ms': st.lists(st.integers(0, (1 << w) - 1), min_size=1, max_size=12, unique=True)})),
          lambda c: [c['w']], lambda c: [1],
          lambda sys, i, o, c: py4hw.SumOfMinterms(sys, 'dut', i[0], list(c['ms']), o[0]),
          lambda c, v: [1 if v[0] in c['ms'] else 0], cls=lambda c: 'nm={}'.format(min(len(c['ms']), 3))))

# standard hexadecimal seven-segment font, active high, segment a = bit 0 ... g = bit 6
_SEG = {0: 'abcdef', 1: 'bc', 2: 'abdeg', 3: 'abcdg', 4: 'bcfg', 5: 'acdfg', 6: 'acdefg', 7: 'abc',
        8: 'abcdefg', 9: 'abcfg', 10: 'abcefg', 11: 'cdefg', 12: 'adef', 13: 'bcdeg', 14: 'adefg', 15: 'aefg'}
reg(Entry('Digit7Segment', [], lambda W: [{}], st.just({}),
          lambda c: [4], lambda c: [7],
          lambda sys, i, o, c: py4hw.Digit7Segment(sys, 'dut', i[0], o[0]),
          lambda c, v: [sum(1 << 'abcdefg'.index(s) for s in _SEG[v[0]])], cls=lambda c: ''))

reg(Entry('Swap', ['w'], _same, _same_st,
          lambda c: [c['w'], c['w'], 1], lambda c: [c['w'], c['w']],
          lambda sys, i, o, c: py4hw.Swap(sys, 'dut', i[0], i[1], i[2], o[0], o[1]),
          lambda c, v: [v[1], v[0]] if v[2] else [v[0], v[1]], cls=lambda c: '', outnames=['ra', 'rb']))

# ---- comparison ---------------------------------------------------------------------------------------------
reg(Entry('Equal', ['w'], _same, _same_st,
          lambda c: [c['w'], c['w']], lambda c: [1],
          lambda sys, i, o, c: py4hw.Equal(sys, 'dut', i[0], i[1], o[0]),
          lambda c, v: [1 if v[0] == v[1] else 0], cls=lambda c: 'w1={}'.format(c['w'] == 1)))


def _eqk_small(W):
    for w in range(1, W + 2):
        for k in range(1 << w):
            yield {'w': w, 'k': k}


_eqk_st = width_st(1, 64).flatmap(lambda w: st.fixed_dictionaries({'w': st.just(w), 'k': st.one_of(
    st.sampled_from([0, 1, mask(w), 1 << (w - 1)]), st.integers(0, mask(w)))}))
reg(Entry('EqualConstant', ['w', 'k'], _eqk_small, _eqk_st,
          lambda c: [c['w']], lambda c: [1],
          lambda sys, i, o, c: py4hw.EqualConstant(sys, 'dut', i[0], c['k'], o[0]),
          lambda c, v: [1 if v[0] == c['k'] else 0], cls=lambda c: 'w1={}'.format(c['w'] == 1)))
reg(Entry('NotEqualConstant', ['w', 'k'], _eqk_small, _eqk_st,
          lambda c: [c['w']], lambda c: [1],
          lambda sys, i, o, c: py4hw.NotEqualConstant(sys, 'dut', i[0], c['k'], o[0]),
          lambda c, v: [0 if v[0] == c['k'] else 1], cls=lambda c: 'w1={}'.format(c['w'] == 1)))

reg(Entry('AnyEqual', ['w', 'n'], lambda W: ({'w': w, 'n': n} for w in range(1, W + 1) for n in range(2, 5) if w * n <= 12),
          st.fixed_dictionaries({'w': width_st(1, 32), 'n': st.integers(2, 5)}),
          lambda c: [c['w']] * c['n'], lambda c: [1],
          lambda sys, i, o, c: py4hw.AnyEqual(sys, 'dut', list(i), o[0]),
          lambda c, v: [1 if len(set(v)) < len(v) else 0], cls=lambda c: 'n={}'.format(c['n'])))

reg(Entry('Comparator', ['w'], _same, _same_st,
          lambda c: [c['w'], c['w']], lambda c: [1, 1, 1],
          lambda sys, i, o, c: py4hw.Comparator(sys, 'dut', i[0], i[1], o[0], o[1], o[2]),
          lambda c, v: [int(v[0] > v[1]), int(v[0] == v[1]), int(v[0] < v[1])], cls=lambda c: '',
          outnames=['gt', 'eq', 'lt']))


def _csu_ref(c, v):
    a, b = v
    sa, sb = to_signed(a, c['w']), to_signed(b, c['w'])
    return [int(a > b), int(a == b), int(a < b), int(sa > sb), int(sa < sb)]


reg(Entry('ComparatorSignedUnsigned', ['w'], _same, _same_st,
          lambda c: [c['w'], c['w']], lambda c: [1, 1, 1, 1, 1],
          lambda sys, i, o, c: py4hw.ComparatorSignedUnsigned(sys, 'dut', i[0], i[1], o[0], o[1], o[2], o[3], o[4]),
          _csu_ref, cls=lambda c: '', outnames=['gtu', 'eq', 'ltu', 'gt', 'lt']))


def minmax(name, ctor, fn, signed):
    def ref(c, v):
        if signed:
            sa, sb = to_signed(v[0], c['w']), to_signed(v[1], c['w'])
            return [fn(sa, sb)]
        return [fn(v[0], v[1])]
    reg(Entry(name, ['w'], _same, _same_st,
              lambda c: [c['w'], c['w']], lambda c: [c['w']],
              lambda sys, i, o, c: ctor(sys, 'dut', i[0], i[1], o[0]), ref, cls=lambda c: ''))


minmax('Min2', py4hw.Min2, min, False)
minmax('Max2', py4hw.Max2, max, False)
minmax('SignedMin2', py4hw.SignedMin2, min, True)
minmax('SignedMax2', py4hw.SignedMax2, max, True)

# LogicHelper comparison-with-constant helpers
def _hk(name, fn, ref, signed=False):
    def build(sys, i, o, c):
        return [fn(py4hw.LogicHelper(sys), i[0], c['k'])]
    reg(Entry('hlp.' + name, ['w', 'k'], _eqk_small, _eqk_st,
              lambda c: [c['w']], lambda c: [1], build,
              (lambda c, v: [int(ref(to_signed(v[0], c['w']), to_signed(c['k'], c['w'])))]) if signed
              else (lambda c, v: [int(ref(v[0], c['k']))]), cls=lambda c: ''))


_hk('hw_gt_constant', lambda h, a, k: h.hw_gt_constant(a, k), lambda a, k: a > k)
_hk('hw_lt_constant', lambda h, a, k: h.hw_lt_constant(a, k), lambda a, k: a < k)
_hk('hw_ge_constant', lambda h, a, k: h.hw_ge_constant(a, k), lambda a, k: a >= k)
_hk('hw_signed_gt_constant', lambda h, a, k: h.hw_signed_gt_constant(a, k), lambda a, k: a > k, signed=True)
_hk('hw_signed_ge_constant', lambda h, a, k: h.hw_signed_ge_constant(a, k), lambda a, k: a >= k, signed=True)
_hk('hw_equal_constant', lambda h, a, k: h.hw_equal_constant(a, k), lambda a, k: a == k)
_hk('hw_not_equal_constant', lambda h, a, k: h.hw_not_equal_constant(a, k), lambda a, k: a != k)

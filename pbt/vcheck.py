"""Validity predicate over a parsed Verilog design (property C03): declarations, resolution, closure, drivers."""
import collections

from . import vlog
from .vlog import const_eval, ids_in, lv_targets, lv_index_reads, stmt_reads_writes, RESERVED


def _width(rng, params):
    if rng is None:
        return 1
    try:
        a, b = const_eval(rng[0], params), const_eval(rng[1], params)
    except vlog.VParseError:
        return None
    return abs(a - b) + 1


def expr_width(e, widths):
    """self-determined width of simple connection expressions; None when not a plain net / select"""
    k = e[0]
    if k == 'id':
        return widths.get(e[1])
    if k == 'index':
        return 1
    if k == 'part':
        try:
            return abs(const_eval(e[2]) - const_eval(e[3])) + 1
        except vlog.VParseError:
            return None
    return None


def _stmt_assign_kinds(s, acc):
    k = s[0]
    if k == 'block':
        for x in s[1]:
            _stmt_assign_kinds(x, acc)
    elif k == 'if':
        _stmt_assign_kinds(s[2], acc)
        if s[3] is not None:
            _stmt_assign_kinds(s[3], acc)
    elif k == 'case':
        for _, body in s[2]:
            _stmt_assign_kinds(body, acc)
    elif k in ('ba', 'nba'):
        for t in lv_targets(s[1]):
            acc.append((t, k, s[1]))


def check_module(m, mods, blackboxes, problems, closed=True):
    P = lambda rule, msg: problems.append((rule, '{}: {}'.format(m.name, msg)))
    params = {}
    for pn, default in m.params:
        params[pn] = 1 if default is None else 0
        try:
            if default is not None:
                params[pn] = const_eval(default)
        except vlog.VParseError:
            pass
    declared = collections.OrderedDict()
    widths = {}
    kinds = {}

    def declare(name, kind, width):
        if name in RESERVED:
            P('reserved_word', 'reserved word {!r} declared as {}'.format(name, kind))
        if name in declared:
            P('duplicate_declaration', '{} declared more than once ({} and {})'.format(name, declared[name], kind))
        else:
            declared[name] = kind
        widths[name] = width
        kinds[name] = kind
    for pn, _ in m.params:
        declare(pn, 'parameter', 32)
    for p in m.ports:
        kind = p.dir + ('_reg' if p.is_reg else '')
        declare(p.name, kind, _width(p.rng, params))
    for d in m.decls:
        kind = 'memory' if d.mem is not None else d.kind
        declare(d.name, kind, 32 if d.kind == 'integer' else _width(d.rng, params))
        if d.rng is not None:
            try:
                a, b = const_eval(d.rng[0], params), const_eval(d.rng[1], params)
                if a < b and d.mem is None:
                    P('degenerate_range', '{} declared with range [{}:{}]'.format(d.name, a, b))
            except vlog.VParseError:
                pass
    if m.name in RESERVED:
        P('reserved_word', 'module name is a reserved word')

    reads = set()
    drivers = collections.defaultdict(list)     # name -> list of (kind, detail)

    def use(names, where):
        for n in names:
            reads.add(n)
            if n not in declared:
                P('undeclared_identifier', '{} used in {} but never declared'.format(n, where))

    def check_selects(e, where):
        if not isinstance(e, tuple):
            return
        k = e[0]
        if k in ('index', 'part') and e[1] in declared:
            if kinds.get(e[1]) not in ('memory',) and widths.get(e[1]) == 1 and kinds.get(e[1]) != 'parameter':
                P('select_on_scalar', '{}[...] selects from the scalar {} in {}'.format(e[1], e[1], where))
            if k == 'part' and kinds.get(e[1]) != 'memory':
                try:
                    hi, lo = const_eval(e[2], params), const_eval(e[3], params)
                    w = widths.get(e[1])
                    if False and w is not None and (max(hi, lo) >= w or min(hi, lo) < 0):
                        P('select_out_of_range', '{}[{}:{}] outside the declared width {} in {}'.format(e[1], hi, lo, w, where))
                    if hi < lo:
                        P('reversed_part_select', '{}[{}:{}] in {}'.format(e[1], hi, lo, where))
                except vlog.VParseError:
                    pass
            if k == 'index' and kinds.get(e[1]) != 'memory' and e[2][0] == 'num':
                w = widths.get(e[1])
                if False and w is not None and e[2][1] >= w:
                    P('select_out_of_range', '{}[{}] outside the declared width {} in {}'.format(e[1], e[2][1], w, where))
        if k == 'rep':
            try:
                n = const_eval(e[1], params)
                if n <= 0:
                    P('bad_replication', 'replication count {} in {}'.format(n, where))
            except vlog.VParseError:
                pass
        if k in ('cat', 'lcat'):
            for x in e[1]:
                check_selects(x, where)
        elif k == 'rep':
            for x in e[2]:
                check_selects(x, where)
        else:
            for x in e[1:]:
                if isinstance(x, tuple):
                    check_selects(x, where)

    for lv, e in m.assigns:
        use(ids_in(e) | lv_index_reads(lv), 'a continuous assignment')
        check_selects(e, 'a continuous assignment')
        check_selects(lv, 'the target of a continuous assignment')
        for t in lv_targets(lv):
            if t not in declared:
                P('undeclared_identifier', '{} assigned but never declared'.format(t))
            drivers[t].append(('assign', lv))
    for idx, (kind, sig, body) in enumerate(m.always):
        r, w = set(), set()
        stmt_reads_writes(body, r, w)
        use(r, 'an always block')
        if sig is not None:
            use({sig}, 'an event control')
        acc = []
        _stmt_assign_kinds(body, acc)
        for t, ak, lv in acc:
            if t not in declared:
                P('undeclared_identifier', '{} assigned in an always block but never declared'.format(t))
            drivers[t].append(('always', idx))
            check_selects(lv, 'a procedural assignment target')
    for body in m.initials:
        r, w = set(), set()
        stmt_reads_writes(body, r, w)
        use(r, 'an initial block')
        for t in w:
            if t not in declared:
                P('undeclared_identifier', '{} assigned in an initial block but never declared'.format(t))
            drivers[t].append(('initial', None))
    inst_names = set()
    for inst in m.instances:
        if inst.name in inst_names or inst.name in declared:
            P('duplicate_instance_name', 'instance name {} is used twice'.format(inst.name))
        inst_names.add(inst.name)
        if inst.name in RESERVED:
            P('reserved_word', 'instance name {} is a reserved word'.format(inst.name))
        cm = mods.get(inst.module)
        for pn, e in inst.conns:
            if e is not None:
                check_selects(e, 'a port connection of ' + inst.name)
        if cm is None:
            if inst.module in blackboxes or not closed:
                for pn, e in inst.conns:
                    if e is not None:
                        use(ids_in(e), 'a port connection of ' + inst.name)
                continue
            P('undefined_module', 'instance {} of module {} which is not defined'.format(inst.name, inst.module))
            for pn, e in inst.conns:
                if e is not None:
                    use(ids_in(e), 'a port connection of ' + inst.name)
            continue
        cparams = {pn: (const_eval(d) if d is not None else None) for pn, d in cm.params}
        seen_p = set()
        for pn, pv in inst.params:
            if pn not in cparams:
                P('unknown_parameter', 'instance {} overrides unknown parameter {} of {}'.format(inst.name, pn, inst.module))
            try:
                cparams[pn] = const_eval(pv, params)
            except vlog.VParseError:
                cparams[pn] = 1
        for pn, v in cparams.items():
            if v is None:
                P('parameter_without_value', 'instance {} gives no value to parameter {} of {}'.format(inst.name, pn, inst.module))
                cparams[pn] = 1
        ports = {p.name: p for p in cm.ports}
        for pn, e in inst.conns:
            if pn in seen_p:
                P('port_connected_twice', 'instance {} connects port {} twice'.format(inst.name, pn))
            seen_p.add(pn)
            if pn not in ports:
                P('unknown_port', 'instance {} connects port {} which module {} does not have'.format(inst.name, pn, inst.module))
                if e is not None:
                    use(ids_in(e), 'a port connection of ' + inst.name)
                continue
            if e is None:
                continue
            pw = _width(ports[pn].rng, cparams)
            ew = expr_width(e, widths)
            if ports[pn].dir == 'input':
                use(ids_in(e), 'a port connection of ' + inst.name)
            else:
                if e[0] not in ('id', 'index', 'part'):
                    P('output_to_expression', 'instance {} connects output port {} to an expression'.format(inst.name, pn))
                    continue
                t = e[1]
                if t not in declared:
                    P('undeclared_identifier', '{} connected to output {} of {} but never declared'.format(t, pn, inst.name))
                drivers[t].append(('instance', inst.name + '.' + pn))
            if pw is not None and ew is not None and pw != ew:
                P('port_width_mismatch', 'instance {} ({}) connects {}-bit {} to {}-bit port {}'.format(
                    inst.name, inst.module, ew, e[1], pw, pn))
        for pn, p in ports.items():
            if pn not in seen_p and p.dir == 'input':
                P('unconnected_input', 'instance {} leaves input port {} of {} unconnected'.format(inst.name, pn, inst.module))
    # drivers
    for name, kind in declared.items():
        ds = drivers.get(name, [])
        if kind == 'parameter':
            continue
        if kind == 'input':
            if ds:
                P('input_driven_inside', 'input port {} is driven inside the module ({})'.format(name, ds[0][0]))
            continue
        cont = [d for d in ds if d[0] in ('assign', 'instance')]
        proc = [d for d in ds if d[0] == 'always']
        if kind in ('wire', 'output', 'inout'):
            if proc or any(d[0] == 'initial' for d in ds):
                P('procedural_assignment_to_net', '{} ({}) is assigned in a procedural block'.format(name, kind))
            whole = [d for d in cont if d[0] == 'instance' or d[1][0] == 'id']
            if len(whole) > 1 or (whole and len(cont) > 1):
                P('multiple_drivers', 'net {} has {} drivers'.format(name, len(cont)))
            elif len(cont) > 1:
                # several part-select assigns: the ranges must not overlap
                bits = collections.Counter()
                for d in cont:
                    lv = d[1]
                    try:
                        if lv[0] == 'part':
                            a, b = const_eval(lv[2], params), const_eval(lv[3], params)
                            for i in range(min(a, b), max(a, b) + 1):
                                bits[i] += 1
                        elif lv[0] == 'index':
                            bits[const_eval(lv[2], params)] += 1
                    except vlog.VParseError:
                        pass
                if any(c > 1 for c in bits.values()):
                    P('multiple_drivers', 'net {} has overlapping drivers'.format(name))
            if not cont and not proc and (name in reads or kind == 'output'):
                P('undriven_net', '{} {} is {} but has no driver'.format(kind, name, 'read' if name in reads else 'an output'))
        else:   # reg, integer, memory, output_reg
            if cont:
                P('continuous_assignment_to_reg', '{} ({}) is driven by a continuous assignment / instance output'.format(name, kind))
            blocks = {d[1] for d in proc}
            # a memory written from two always blocks is the usual true-dual-port RAM template: legal
            if len(blocks) > 1 and kind != 'memory':
                P('multiple_drivers', 'variable {} is assigned in {} always blocks'.format(name, len(blocks)))
            if not ds and name in reads and kind != 'memory':
                has_init = any(d.name == name and d.init is not None for d in m.decls)
                if not has_init:
                    P('undriven_net', 'variable {} is read but never assigned'.format(name))
            if kind == 'output_reg' and not ds:
                P('undriven_net', 'output reg {} is never assigned'.format(name))


def check_design(mods, blackboxes=(), closed=True):
    problems = []
    counts = collections.Counter(m.name for m in mods)
    for n, c in counts.items():
        if c > 1:
            problems.append(('module_defined_twice', 'module {} is defined {} times'.format(n, c)))
    md = {}
    for m in mods:
        md.setdefault(m.name, m)
    for m in mods:
        check_module(m, md, set(blackboxes), problems, closed=closed)
    return problems


def header(m):
    """interface of a module: parameters and ports with directions and widths"""
    return (tuple(pn for pn, _ in m.params),
            tuple((p.dir, p.is_reg, _width(p.rng, {pn: 1 for pn, _ in m.params}), p.name) for p in m.ports))

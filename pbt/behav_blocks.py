"""Behavioural (transpiled) blocks used inside generated netlists.  They live in a real module file because the
transpiler reads the class source with inspect.getsource."""
import py4hw


class ScaleK(py4hw.Logic):
    """r = (a * k + 1) & 0xFFFF, with k a constructor constant"""

    def __init__(self, parent, name, a, r, k):
        super().__init__(parent, name)
        self.a = self.addIn('a', a)
        self.r = self.addOut('r', r)
        self.k = k

    def propagate(self):
        x = self.a.get() * self.k
        self.r.put((x + 1) & 65535)


class MealyAcc(py4hw.Logic):
    """A leaf with both clock() and propagate() (Mealy style FSM block): the state lives in the object, the output
    is a combinational function of the state and the input.  clock() prepares no wire."""

    def __init__(self, parent, name, a, r):
        super().__init__(parent, name)
        self.a = self.addIn('a', a)
        self.r = self.addOut('r', r)
        self.s = 0

    def clock(self):
        self.s = (self.s ^ self.a.get()) & ((1 << self.r.getWidth()) - 1)

    def propagate(self):
        self.r.put(self.s + self.a.get())




class PopLoop(py4hw.Logic):
    """a behavioural leaf the transpiler refuses (while loop): a generation request that reaches it raises"""

    def __init__(self, parent, name, a, r):
        super().__init__(parent, name)
        self.a = self.addIn('a', a)
        self.r = self.addOut('r', r)

    def propagate(self):
        x = self.a.get()
        n = 0
        while x:
            n += x & 1
            x >>= 1
        self.r.put(n)


class LocalAR(py4hw.Logic):
    """a transpiled leaf whose local variables are called like the ports of ScaleK (a, r)"""

    def __init__(self, parent, name, x, y):
        super().__init__(parent, name)
        self.x = self.addIn('x', x)
        self.y = self.addOut('y', y)

    def propagate(self):
        a = self.x.get() + 1
        r = a * 3
        self.y.put(r & 65535)


class DecoyPorts(py4hw.Logic):
    """a transpiled leaf whose ports carry the names that generated C02 programs use for locals, state and constants"""

    def __init__(self, parent, name, x0, x1, s0, k0, q):
        super().__init__(parent, name)
        self.x0 = self.addIn('x0', x0)
        self.x1 = self.addIn('x1', x1)
        self.s0 = self.addIn('s0', s0)
        self.k0 = self.addIn('k0', k0)
        self.q = self.addOut('q', q)

    def propagate(self):
        self.q.put((self.x0.get() + self.x1.get() + self.s0.get() + self.k0.get()) & 255)

"""Behavioural (transpiled) blocks used inside generated netlists.  They live in a real module file because the
transpiler reads the class source with inspect.getsource."""
import py4hw


class ScaleK(py4hw.Logic):
    """r = (a * k + 1) & 0xFFFF, with k a constructor constant"""

    def __init__(self, parent, name, a, r, k):
        super().__init__(parent, name)
        self.a = self.addIn('a', a)
        self.r = self.addOut('r', r)
        self.k = k

    def propagate(self):
        x = self.a.get() * self.k
        self.r.put((x + 1) & 65535)


class MealyAcc(py4hw.Logic):
    """A leaf with both clock() and propagate() (Mealy style FSM block): the state lives in the object, the output
    is a combinational function of the state and the input.  clock() prepares no wire."""

    def __init__(self, parent, name, a, r):
        super().__init__(parent, name)
        self.a = self.addIn('a', a)
        self.r = self.addOut('r', r)
        self.s = 0

    def clock(self):
        self.s = (self.s ^ self.a.get()) & ((1 << self.r.getWidth()) - 1)

    def propagate(self):
        self.r.put(self.s + self.a.get())




class PopLoop(py4hw.Logic):
    """a behavioural leaf the transpiler refuses (while loop): a generation request that reaches it raises"""

    def __init__(self, parent, name, a, r):
        super().__init__(parent, name)
        self.a = self.addIn('a', a)
        self.r = self.addOut('r', r)

    def propagate(self):
        x = self.a.get()
        n = 0
        while x:
            n += x & 1
            x >>= 1
        self.r.put(n)

"""Verilog-subset front end and interpreter (IEEE 1364-2005 semantics for the constructs py4hw can emit).

  parse(text)            -> list of Module (raises VParseError on anything outside the subset)
  check_design(mods,...) -> list of rule violations (C03 validity predicate)
  Sim(mods, top)         -> event-driven two-state simulator (active region / NBA region), used by C01, C02

Expression semantics follow 5.4 (bit lengths) and 5.5 (signedness) of the standard: the type (signed iff
all context-determined operands are signed) and the size (max over context-determined operands and the
assignment target) are computed first and then propagated down; self-determined operands (shift amounts,
concatenation members, comparison operands among themselves, logical operands) are sized on their own.
Unsized literals get max(32, bits needed) bits.  Values are two-state; a reg / memory without an
initialiser powers up to 0 (assumption A1)."""
import re

RESERVED = set('''always and assign automatic begin buf bufif0 bufif1 case casex casez cell cmos config deassign default
defparam design disable edge else end endcase endconfig endfunction endgenerate endmodule endprimitive endspecify
endtable endtask event for force forever fork function generate genvar highz0 highz1 if ifnone incdir include initial
inout input instance integer join large liblist library localparam macromodule medium module nand negedge nmos nor
noshowcancelled not notif0 notif1 or output parameter pmos posedge primitive pull0 pull1 pulldown pullup
pulsestyle_onevent pulsestyle_ondetect rcmos real realtime reg release repeat rnmos rpmos rtran rtranif0 rtranif1
scalared showcancelled signed small specify specparam strong0 strong1 supply0 supply1 table task time tran tranif0
tranif1 tri tri0 tri1 triand trior trireg unsigned use uwire vectored wait wand weak0 weak1 while wire wor xnor xor
accept_on alias always_comb always_ff always_latch assert assume before bind bins binsof bit break byte chandle checker
class clocking const constraint context continue cover covergroup coverpoint cross dist do endchecker endclass
endclocking endgroup endinterface endpackage endprogram endproperty endsequence enum eventually expect export extends
extern final first_match foreach forkjoin global iff ignore_bins illegal_bins implies import inside int interface
intersect join_any join_none let local logic longint matches modport new nexttime null package packed priority program
property protected pure rand randc randcase randsequence ref reject_on restrict return s_always s_eventually s_nexttime
s_until s_until_with sequence shortint shortreal solve static string strong struct super sync_accept_on sync_reject_on
tagged this throughout timeprecision timeunit type typedef union unique unique0 until until_with untyped var virtual
void wait_order weak wildcard with within'''.split())


class VParseError(Exception):
    pass


class Undefined(Exception):
    """an operation the standard leaves undefined (x result): division by zero, out-of-range select"""
    pass


class VSimError(Exception):
    pass


# ---------------------------------------------------------------------------------------------- lexer
TOKEN_RE = re.compile(r'''
    (?P<ws>\s+)
  | (?P<lcomment>//[^\n]*)
  | (?P<bcomment>/\*.*?\*/)
  | (?P<attr>\(\*(?!\s*\)).*?\*\))
  | (?P<based>(\d+)?\s*'[sS]?[bBoOdDhH]\s*[0-9a-fA-FxXzZ_?]+)
  | (?P<num>\d[\d_]*)
  | (?P<id>[A-Za-z_][A-Za-z0-9_$]*)
  | (?P<sys>\$[A-Za-z_][A-Za-z0-9_$]*)
  | (?P<str>"[^"\n]*")
  | (?P<op><<<|>>>|===|!==|<<|>>|<=|>=|==|!=|&&|\|\||~&|~\||~\^|\^~|\*\*|[-+*/%&|^~!<>=?:;,.()\[\]{}#@])
''', re.X | re.S)


def lex(text):
    toks = []
    pos = 0
    n = len(text)
    while pos < n:
        m = TOKEN_RE.match(text, pos)
        if not m:
            raise VParseError('unexpected character {!r} at offset {} ({!r})'.format(text[pos], pos, text[max(0, pos - 30):pos + 30]))
        pos = m.end()
        k = m.lastgroup
        if k in ('ws', 'lcomment', 'bcomment'):
            continue
        toks.append((k, m.group(k), m.start()))
    toks.append(('eof', '', n))
    return toks


# ---------------------------------------------------------------------------------------------- AST
class Module:
    def __init__(self, name):
        self.name = name
        self.params = []        # [(name, default expr or None)]
        self.ports = []         # [Port]
        self.decls = []         # [Decl]  (wires, regs, integers declared in the body)
        self.assigns = []       # [(lvalue, expr)]
        self.instances = []     # [Instance]
        self.always = []        # [(kind, signal or None, stmt)]  kind in posedge/negedge/star
        self.initials = []      # [stmt]


class Port:
    def __init__(self, direction, is_reg, rng, name):
        self.dir, self.is_reg, self.rng, self.name = direction, is_reg, rng, name


class Decl:
    def __init__(self, kind, rng, name, mem=None, init=None):
        self.kind, self.rng, self.name, self.mem, self.init = kind, rng, name, mem, init


class Instance:
    def __init__(self, module, name, params, conns):
        self.module, self.name, self.params, self.conns = module, name, params, conns   # conns: [(port, expr or None)]


# expressions: tuples
#  ('num', value, width or None, signed)   ('id', name)   ('index', name, expr)   ('part', name, msb expr, lsb expr)
#  ('un', op, e)  ('bin', op, a, b)  ('tern', c, a, b)  ('cat', [e..])  ('rep', n expr, [e..])  ('sysf', name, e)
# statements: ('block', [s..]) ('if', c, s, s|None) ('case', e, [([exprs]|None, s)]) ('ba', lv, e) ('nba', lv, e) ('null',)

BINPREC = {
    '**': 12,
    '*': 11, '/': 11, '%': 11,
    '+': 10, '-': 10,
    '<<': 9, '>>': 9, '<<<': 9, '>>>': 9,
    '<': 8, '<=': 8, '>': 8, '>=': 8,
    '==': 7, '!=': 7, '===': 7, '!==': 7,
    '&': 6,
    '^': 5, '^~': 5, '~^': 5,
    '|': 4,
    '&&': 3,
    '||': 2,
}


class Parser:
    def __init__(self, text):
        self.toks = lex(text)
        self.i = 0

    def peek(self, k=0):
        return self.toks[self.i + k]

    def next(self):
        t = self.toks[self.i]
        self.i += 1
        return t

    def accept(self, val):
        if self.peek()[1] == val and self.peek()[0] in ('op', 'id'):
            return self.next()
        return None

    def expect(self, val):
        t = self.next()
        if t[1] != val:
            raise VParseError('expected {!r} but found {!r} at offset {}'.format(val, t[1], t[2]))
        return t

    def ident(self):
        t = self.next()
        if t[0] != 'id':
            raise VParseError('expected identifier but found {!r} at offset {}'.format(t[1], t[2]))
        return t[1]

    # ---- modules
    def parse(self):
        mods = []
        while self.peek()[0] != 'eof':
            if self.peek()[0] == 'attr':
                self.next()
                continue
            mods.append(self.module())
        return mods

    def module(self):
        self.expect('module')
        m = Module(self.ident())
        if self.accept('#'):
            self.expect('(')
            while True:
                self.expect('parameter')
                name = self.ident()
                default = None
                if self.accept('='):
                    default = self.expr()
                m.params.append((name, default))
                if not self.accept(','):
                    break
            self.expect(')')
        self.expect('(')
        if not self.accept(')'):
            while True:
                d = self.next()
                if d[1] not in ('input', 'output', 'inout'):
                    raise VParseError('expected port direction, found {!r} at offset {}'.format(d[1], d[2]))
                is_reg = bool(self.accept('reg'))
                if self.accept('wire'):
                    pass
                rng = self.range_opt()
                m.ports.append(Port(d[1], is_reg, rng, self.ident()))
                if not self.accept(','):
                    break
            self.expect(')')
        self.expect(';')
        while not self.accept('endmodule'):
            self.item(m)
        return m

    def range_opt(self):
        if self.peek()[1] == '[':
            self.next()
            a = self.expr()
            self.expect(':')
            b = self.expr()
            self.expect(']')
            return (a, b)
        return None

    def item(self, m):
        t = self.peek()
        if t[0] == 'attr':
            self.next()
            return
        if t[0] == 'eof':
            raise VParseError('missing endmodule for module ' + m.name)
        v = t[1]
        if v in ('wire', 'reg', 'integer'):
            self.next()
            signed = False
            if self.accept('signed'):
                signed = True
            rng = self.range_opt() if v != 'integer' else None
            while True:
                name = self.ident()
                mem = None
                if self.peek()[1] == '[':
                    mem = self.range_opt()
                init = None
                if self.accept('='):
                    init = self.expr()
                d = Decl(v, rng, name, mem, init)
                d.signed = signed or v == 'integer'
                m.decls.append(d)
                if not self.accept(','):
                    break
            self.expect(';')
        elif v == 'assign':
            self.next()
            lv = self.lvalue()
            self.expect('=')
            e = self.expr()
            self.expect(';')
            m.assigns.append((lv, e))
        elif v == 'initial':
            self.next()
            m.initials.append(self.stmt())
        elif v == 'always':
            self.next()
            self.expect('@')
            if self.accept('*'):
                kind, sig = 'star', None
            else:
                self.expect('(')
                if self.accept('*'):
                    kind, sig = 'star', None
                else:
                    e = self.next()
                    if e[1] not in ('posedge', 'negedge'):
                        raise VParseError('unsupported event control {!r} at offset {}'.format(e[1], e[2]))
                    kind, sig = e[1], self.ident()
                self.expect(')')
            m.always.append((kind, sig, self.stmt()))
        elif t[0] == 'id' and v not in RESERVED:
            self.instance(m)
        else:
            raise VParseError('unsupported module item {!r} at offset {} in module {}'.format(v, t[2], m.name))

    def instance(self, m):
        modname = self.ident()
        params = []
        if self.accept('#'):
            self.expect('(')
            if not self.accept(')'):
                while True:
                    self.expect('.')
                    pn = self.ident()
                    self.expect('(')
                    pv = self.expr()
                    self.expect(')')
                    params.append((pn, pv))
                    if not self.accept(','):
                        break
                self.expect(')')
        iname = self.ident()
        self.expect('(')
        conns = []
        if not self.accept(')'):
            while True:
                self.expect('.')
                pn = self.ident()
                self.expect('(')
                e = None
                if self.peek()[1] != ')':
                    e = self.expr()
                self.expect(')')
                conns.append((pn, e))
                if not self.accept(','):
                    break
            self.expect(')')
        self.expect(';')
        m.instances.append(Instance(modname, iname, params, conns))

    # ---- statements
    def stmt(self):
        t = self.peek()
        v = t[1]
        if t[0] == 'attr':
            self.next()
            return self.stmt()
        if v == 'begin':
            self.next()
            body = []
            while not self.accept('end'):
                if self.peek()[0] == 'eof':
                    raise VParseError('missing end')
                body.append(self.stmt())
            return ('block', body)
        if v == 'if':
            self.next()
            self.expect('(')
            c = self.expr()
            self.expect(')')
            a = self.stmt()
            b = None
            if self.accept('else'):
                b = self.stmt()
            return ('if', c, a, b)
        if v == 'case':
            self.next()
            self.expect('(')
            e = self.expr()
            self.expect(')')
            items = []
            while not self.accept('endcase'):
                if self.peek()[0] == 'eof':
                    raise VParseError('missing endcase')
                if self.accept('default'):
                    self.accept(':')
                    items.append((None, self.stmt()))
                else:
                    labels = [self.expr()]
                    while self.accept(','):
                        labels.append(self.expr())
                    self.expect(':')
                    items.append((labels, self.stmt()))
            return ('case', e, items)
        if v == ';':
            self.next()
            return ('null',)
        if t[0] == 'id' and v not in RESERVED or v == '{':
            lv = self.lvalue()
            op = self.next()
            if op[1] not in ('=', '<='):
                raise VParseError('expected assignment operator, found {!r} at offset {}'.format(op[1], op[2]))
            e = self.expr()
            self.expect(';')
            return ('ba' if op[1] == '=' else 'nba', lv, e)
        raise VParseError('unsupported statement starting with {!r} at offset {}'.format(v, t[2]))

    def lvalue(self):
        if self.accept('{'):
            parts = [self.lvalue()]
            while self.accept(','):
                parts.append(self.lvalue())
            self.expect('}')
            return ('lcat', parts)
        name = self.ident()
        if name in RESERVED:
            raise VParseError('reserved word {!r} used as an identifier'.format(name))
        if self.peek()[1] == '[':
            self.next()
            a = self.expr()
            if self.accept(':'):
                b = self.expr()
                self.expect(']')
                return ('part', name, a, b)
            self.expect(']')
            return ('index', name, a)
        return ('id', name)

    # ---- expressions (precedence climbing, 1364-2005 table 5-4)
    def expr(self):
        return self.ternary()

    def ternary(self):
        c = self.binary(0)
        if self.accept('?'):
            a = self.ternary()
            self.expect(':')
            b = self.ternary()
            return ('tern', c, a, b)
        return c

    def binary(self, minprec):
        left = self.unary()
        while True:
            t = self.peek()
            op = t[1]
            if t[0] != 'op' or op not in BINPREC or BINPREC[op] < minprec:
                return left
            # '<=' inside an expression is the relational operator
            self.next()
            prec = BINPREC[op]
            right = self.binary(prec + 1 if op != '**' else prec)
            left = ('bin', op, left, right)

    def unary(self):
        t = self.peek()
        if t[0] == 'op' and t[1] in ('+', '-', '~', '!', '&', '|', '^', '~&', '~|', '~^', '^~'):
            self.next()
            return ('un', t[1], self.unary())
        return self.primary()

    def primary(self):
        t = self.next()
        k, v = t[0], t[1]
        if k == 'num':
            return ('num', int(v.replace('_', '')), None, True)
        if k == 'based':
            m = re.match(r"(\d+)?\s*'([sS]?)([bBoOdDhH])\s*([0-9a-fA-FxXzZ_?]+)", v)
            width = int(m.group(1)) if m.group(1) else None
            signed = bool(m.group(2))
            base = {'b': 2, 'o': 8, 'd': 10, 'h': 16}[m.group(3).lower()]
            digits = m.group(4).replace('_', '')
            digits = re.sub('[xXzZ?]', '0', digits)      # two-state
            val = int(digits, base)
            if width is not None:
                val &= (1 << width) - 1
            return ('num', val, width, signed)
        if k == 'sys':
            if v not in ('$signed', '$unsigned'):
                raise VParseError('unsupported system function {} at offset {}'.format(v, t[2]))
            self.expect('(')
            e = self.expr()
            self.expect(')')
            return ('sysf', v, e)
        if k == 'op' and v == '(':
            e = self.expr()
            self.expect(')')
            return e
        if k == 'op' and v == '{':
            first = self.expr()
            if self.accept('{'):
                items = [self.expr()]
                while self.accept(','):
                    items.append(self.expr())
                self.expect('}')
                self.expect('}')
                return ('rep', first, items)
            items = [first]
            while self.accept(','):
                items.append(self.expr())
            self.expect('}')
            return ('cat', items)
        if k == 'id':
            if v in RESERVED:
                raise VParseError('reserved word {!r} used in an expression at offset {}'.format(v, t[2]))
            if self.peek()[1] == '[':
                self.next()
                a = self.expr()
                if self.accept(':'):
                    b = self.expr()
                    self.expect(']')
                    return ('part', v, a, b)
                self.expect(']')
                return ('index', v, a)
            return ('id', v)
        raise VParseError('unexpected token {!r} at offset {} in expression'.format(v, t[2]))


def parse(text):
    return Parser(text).parse()


# ---------------------------------------------------------------------------------------------- helpers
def mask(w):
    return (1 << w) - 1


def const_eval(e, params=None):
    """constant expression (ranges, parameters, replication counts)"""
    k = e[0]
    if k == 'num':
        return e[1]
    if k == 'id':
        if params is not None and e[1] in params:
            return params[e[1]]
        raise VParseError('non-constant identifier {} in a constant expression'.format(e[1]))
    if k == 'un':
        v = const_eval(e[2], params)
        return {'-': -v, '+': v, '~': ~v, '!': int(not v)}.get(e[1], v)
    if k == 'bin':
        a, b = const_eval(e[2], params), const_eval(e[3], params)
        op = e[1]
        if op == '+': return a + b
        if op == '-': return a - b
        if op == '*': return a * b
        if op == '/': return a // b
        if op == '%': return a % b
        if op == '<<': return a << b
        if op == '>>': return a >> b
        raise VParseError('unsupported constant operator ' + op)
    raise VParseError('unsupported constant expression')


def ids_in(e, acc=None):
    """identifiers read by an expression / lvalue index"""
    acc = set() if acc is None else acc
    if not isinstance(e, tuple):
        return acc
    k = e[0]
    if k == 'id':
        acc.add(e[1])
    elif k in ('index', 'part'):
        acc.add(e[1])
        for x in e[2:]:
            ids_in(x, acc)
    elif k == 'num':
        pass
    elif k in ('cat', 'lcat'):
        for x in e[1]:
            ids_in(x, acc)
    elif k == 'rep':
        ids_in(e[1], acc)
        for x in e[2]:
            ids_in(x, acc)
    else:
        for x in e[1:]:
            if isinstance(x, tuple):
                ids_in(x, acc)
    return acc


def lv_targets(lv):
    if lv[0] == 'lcat':
        out = []
        for p in lv[1]:
            out += lv_targets(p)
        return out
    return [lv[1]]


def lv_index_reads(lv, acc=None):
    acc = set() if acc is None else acc
    if lv[0] == 'lcat':
        for p in lv[1]:
            lv_index_reads(p, acc)
    elif lv[0] in ('index', 'part'):
        for x in lv[2:]:
            ids_in(x, acc)
    return acc


def stmt_reads_writes(s, reads, writes):
    k = s[0]
    if k == 'block':
        for x in s[1]:
            stmt_reads_writes(x, reads, writes)
    elif k == 'if':
        ids_in(s[1], reads)
        stmt_reads_writes(s[2], reads, writes)
        if s[3] is not None:
            stmt_reads_writes(s[3], reads, writes)
    elif k == 'case':
        ids_in(s[1], reads)
        for labels, body in s[2]:
            for l in labels or []:
                ids_in(l, reads)
            stmt_reads_writes(body, reads, writes)
    elif k in ('ba', 'nba'):
        ids_in(s[2], reads)
        lv_index_reads(s[1], reads)
        for t in lv_targets(s[1]):
            writes.add(t)


# ---------------------------------------------------------------------------------------------- simulator
class Sig:
    __slots__ = ('name', 'width', 'signed', 'kind', 'value', 'mem', 'mem_lo', 'mem_hi', 'lsb', 'readers', 'edge_procs',
                 'has_init', 'scope')

    def __init__(self, name, width, signed, kind, lsb=0):
        self.name, self.width, self.signed, self.kind, self.lsb = name, width, signed, kind, lsb
        self.value = 0
        self.mem = None
        self.readers = []
        self.edge_procs = []
        self.has_init = False


class Scope:
    def __init__(self, path, module, params):
        self.path, self.module, self.params = path, module, params
        self.sigs = {}
        self.children = {}


class Proc:
    __slots__ = ('kind', 'scope', 'a', 'b', 'queued', 'edge', 'name')

    def __init__(self, kind, scope, a, b=None, edge=None, name=''):
        self.kind, self.scope, self.a, self.b, self.edge, self.name = kind, scope, a, b, edge, name
        self.queued = False


class Sim:
    DELTA_LIMIT = 20000

    def __init__(self, modules, top, blackboxes=(), inputs=None, oob_fill=None, guard=False):
        self.undefined_events = 0      # operations with an undefined (x) result; the harness discards such runs
        # IEEE 1364-2005 5.2.2: a memory word or bit selected with an out-of-range index reads x.  With oob_fill = 0 or 1
        # such a read returns all zeros / all ones and is counted, so that a caller can run both fills and see whether
        # the undefined value reaches an output; with None it is an Undefined event like a division by zero.
        self.oob_fill = oob_fill
        self.oob_reads = 0
        self.current = None
        self.guard = guard             # domain guard of property C02 (see check_domain)
        self.domain_violations = 0
        self.x_as_zero = 0             # constant selects reaching outside the declared range read 0 for those bits
        self.mods = {}
        for m in modules:
            if m.name in self.mods:
                raise VSimError('module {} defined twice'.format(m.name))
            self.mods[m.name] = m
        if top not in self.mods:
            raise VSimError('top module {} not found'.format(top))
        self.procs = []
        self.active = []
        self.nba = []
        self.uninit_regs = 0
        self.top = self.elaborate(self.mods[top], top, {})
        for name, v in (inputs or {}).items():
            self.sig(self.top, name).value = v & mask(self.sig(self.top, name).width)
        # time 0: initial values already applied; run initial blocks, then evaluate every continuous process once
        for p in self.procs:
            if p.kind == 'initial':
                self.exec_stmt(p.scope, p.a)
        for p in self.procs:
            if p.kind in ('assign', 'star', 'conn_in', 'conn_out'):
                self.schedule(p)
        self.settle()

    # ---- elaboration
    def width_of(self, rng, params):
        if rng is None:
            return 1, 0
        a, b = const_eval(rng[0], params), const_eval(rng[1], params)
        if a < b:
            # e.g. reg [-1:0] count -- descending ranges only; a degenerate range is kept as written
            return abs(a - b) + 1, a
        return a - b + 1, b

    def elaborate(self, mod, path, params):
        sc = Scope(path, mod, params)
        for p in mod.ports:
            w, lsb = self.width_of(p.rng, params)
            s = Sig(p.name, w, False, 'reg' if p.is_reg else 'wire', lsb)
            s.scope = sc
            if p.name in sc.sigs:
                raise VSimError('{}: port {} declared twice'.format(path, p.name))
            sc.sigs[p.name] = s
        for d in mod.decls:
            if d.kind == 'integer':
                s = Sig(d.name, 32, True, 'integer')
            else:
                w, lsb = self.width_of(d.rng, params)
                s = Sig(d.name, w, getattr(d, 'signed', False), d.kind, lsb)
            s.scope = sc
            if d.mem is not None:
                a, b = const_eval(d.mem[0], params), const_eval(d.mem[1], params)
                s.mem_lo, s.mem_hi = min(a, b), max(a, b)
                s.mem = {}
                s.kind = 'memory'
            if d.name in sc.sigs:
                raise VSimError('{}: {} declared twice'.format(path, d.name))
            sc.sigs[d.name] = s
            if d.init is not None:
                s.value = self.eval_assign(sc, d.init, s.width)
                s.has_init = True
            elif d.kind in ('reg', 'integer'):
                self.uninit_regs += 1
        for lv, e in mod.assigns:
            self.add_proc(Proc('assign', sc, lv, e), ids_in(e) | lv_index_reads(lv), sc)
        for kind, sig, body in mod.always:
            reads, writes = set(), set()
            stmt_reads_writes(body, reads, writes)
            if kind == 'star':
                self.add_proc(Proc('star', sc, body), reads, sc)
            else:
                p = Proc('edge', sc, body, edge=kind)
                self.procs.append(p)
                if sig not in sc.sigs:
                    raise VSimError('{}: event signal {} not declared'.format(path, sig))
                sc.sigs[sig].edge_procs.append(p)
        for body in mod.initials:
            self.procs.append(Proc('initial', sc, body))
        for inst in mod.instances:
            if inst.module not in self.mods:
                raise VSimError('{}: module {} is not defined'.format(path, inst.module))
            cm = self.mods[inst.module]
            cparams = {}
            for pn, default in cm.params:
                if default is not None:
                    cparams[pn] = const_eval(default, params)
            for pn, pv in inst.params:
                cparams[pn] = const_eval(pv, params)
            for pn, _ in cm.params:
                if pn not in cparams:
                    raise VSimError('{}: parameter {} of {} has no value'.format(path, pn, inst.module))
            csc = self.elaborate(cm, path + '.' + inst.name, cparams)
            sc.children[inst.name] = csc
            ports = {p.name: p for p in cm.ports}
            for pn, e in inst.conns:
                if pn not in ports:
                    raise VSimError('{}: instance {} connects unknown port {} of {}'.format(path, inst.name, pn, inst.module))
                if e is None:
                    continue
                if ports[pn].dir == 'input':
                    self.add_proc(Proc('conn_in', sc, csc.sigs[pn], e), ids_in(e), sc)
                else:
                    pr = Proc('conn_out', sc, e, csc.sigs[pn])
                    self.procs.append(pr)
                    csc.sigs[pn].readers.append(pr)
        return sc

    def add_proc(self, p, reads, sc):
        self.procs.append(p)
        for name in reads:
            s = sc.sigs.get(name)
            if s is None:
                if name in sc.params:
                    continue
                raise VSimError('{}: identifier {} is not declared'.format(sc.path, name))
            s.readers.append(p)

    # ---- scheduling
    def schedule(self, p):
        if not p.queued:
            p.queued = True
            self.active.append(p)

    def set_sig(self, s, v):
        v &= mask(s.width)
        if v == s.value:
            return
        old = s.value
        s.value = v
        cur = self.current
        for p in s.readers:
            # a process is not sensitive to its own assignments while it executes (it waits at its event control
            # only after it ran to the end), so an always @(*) block that writes and reads a variable does not loop
            if p is not cur:
                self.schedule(p)
        if s.edge_procs:
            o, n = old & 1, v & 1
            for p in s.edge_procs:
                if (p.edge == 'posedge' and o == 0 and n == 1) or (p.edge == 'negedge' and o == 1 and n == 0):
                    self.schedule(p)

    def mem_changed(self, s):
        for p in s.readers:
            if p is not self.current:
                self.schedule(p)

    def settle(self):
        n = 0
        while self.active or self.nba:
            while self.active:
                n += 1
                if n > self.DELTA_LIMIT:
                    raise VSimError('combinational non-convergence (more than {} delta evaluations)'.format(self.DELTA_LIMIT))
                p = self.active.pop(0)
                p.queued = False
                try:
                    self.run(p)
                except Undefined:
                    self.undefined_events += 1
            if self.nba:
                pending, self.nba = self.nba, []
                for sc, lv, val, idx in pending:
                    self.store(sc, lv, val, idx)

    def run(self, p):
        self.current = p if p.kind == 'star' else None
        try:
            self._run(p)
        finally:
            self.current = None

    def _run(self, p):
        k = p.kind
        sc = p.scope
        if k == 'assign':
            lw = self.lv_width(sc, p.a)
            val = self.eval_assign(sc, p.b, lw)
            self.store(sc, p.a, val, self.lv_indices(sc, p.a))
        elif k == 'conn_in':
            s = p.a
            self.set_sig(s, self.eval_assign(sc, p.b, s.width))
        elif k == 'conn_out':
            s = p.b
            lw = self.lv_width(sc, p.a)
            w = max(lw, s.width)
            self.store(sc, p.a, s.value & mask(w), self.lv_indices(sc, p.a))
        elif k in ('star', 'edge'):
            self.exec_stmt(sc, p.a)

    # ---- statements
    def exec_stmt(self, sc, s):
        k = s[0]
        if k == 'block':
            for x in s[1]:
                self.exec_stmt(sc, x)
        elif k == 'if':
            if self.guard:
                cw, cs = self.size(sc, s[1])
                self.check_domain(sc, s[1], cw, cs)
            if self.eval_self(sc, s[1]) != 0:
                self.exec_stmt(sc, s[2])
            elif s[3] is not None:
                self.exec_stmt(sc, s[3])
        elif k == 'case':
            ew, es = self.size(sc, s[1])
            for labels, body in s[2]:
                if labels is None:
                    continue
                for l in labels:
                    lw, ls = self.size(sc, l)
                    w = max(ew, lw)
                    sg = es and ls
                    if self.eval(sc, s[1], w, sg) == self.eval(sc, l, w, sg):
                        self.exec_stmt(sc, body)
                        return
            for labels, body in s[2]:
                if labels is None:
                    self.exec_stmt(sc, body)
                    return
        elif k == 'ba':
            lw = self.lv_width(sc, s[1])
            val = self.eval_assign(sc, s[2], lw)
            self.check_signed_store(sc, s[1], s[2], lw)
            self.store(sc, s[1], val, self.lv_indices(sc, s[1]))
        elif k == 'nba':
            lw = self.lv_width(sc, s[1])
            val = self.eval_assign(sc, s[2], lw)
            self.check_signed_store(sc, s[1], s[2], lw)
            self.nba.append((sc, s[1], val, self.lv_indices(sc, s[1])))
        elif k == 'null':
            pass
        else:
            raise VSimError('unknown statement ' + k)

    # ---- lvalues
    def sig(self, sc, name):
        s = sc.sigs.get(name)
        if s is None:
            raise VSimError('{}: identifier {} is not declared'.format(sc.path, name))
        return s

    def lv_width(self, sc, lv):
        k = lv[0]
        if k == 'id':
            return self.sig(sc, lv[1]).width
        if k == 'index':
            s = self.sig(sc, lv[1])
            return s.width if s.mem is not None else 1
        if k == 'part':
            a, b = const_eval(lv[2], sc.params), const_eval(lv[3], sc.params)
            return abs(a - b) + 1
        if k == 'lcat':
            return sum(self.lv_width(sc, p) for p in lv[1])
        raise VSimError('bad lvalue')

    def lv_indices(self, sc, lv):
        """index expressions are evaluated when the assignment is executed (also for non-blocking ones)"""
        k = lv[0]
        if k == 'index':
            return self.eval_self(sc, lv[2])
        if k == 'lcat':
            return [self.lv_indices(sc, p) for p in lv[1]]
        return None

    def store(self, sc, lv, val, idx):
        k = lv[0]
        if k == 'id':
            s = self.sig(sc, lv[1])
            if s.mem is not None:
                raise VSimError('assignment to a whole memory')
            self.set_sig(s, val)
        elif k == 'index':
            s = self.sig(sc, lv[1])
            if s.mem is not None:
                if not (s.mem_lo <= idx <= s.mem_hi):
                    return          # out-of-range write has no effect
                v = val & mask(s.width)
                if s.mem.get(idx, 0) != v:
                    s.mem[idx] = v
                    self.mem_changed(s)
            else:
                b = idx - s.lsb
                if 0 <= b < s.width:
                    self.set_sig(s, (s.value & ~(1 << b)) | ((val & 1) << b))
        elif k == 'part':
            s = self.sig(sc, lv[1])
            a, b = const_eval(lv[2], sc.params), const_eval(lv[3], sc.params)
            lo = min(a, b) - s.lsb
            w = abs(a - b) + 1
            m = mask(w) << lo
            self.set_sig(s, (s.value & ~m) | ((val & mask(w)) << lo))
        elif k == 'lcat':
            pos = sum(self.lv_width(sc, p) for p in lv[1])
            for p, ix in zip(lv[1], idx):
                w = self.lv_width(sc, p)
                pos -= w
                self.store(sc, p, (val >> pos) & mask(w), ix)

    # ---- expression sizing (5.4.1) and type (5.5.1)
    def size(self, sc, e):
        k = e[0]
        if k == 'num':
            if e[2] is None:
                return max(32, e[1].bit_length() + (1 if e[3] else 0)), e[3]
            return e[2], e[3]
        if k == 'id':
            if e[1] in sc.sigs:
                s = sc.sigs[e[1]]
                if s.mem is not None:
                    raise VSimError('{}: memory {} used without an index'.format(sc.path, e[1]))
                return s.width, s.signed
            if e[1] in sc.params:
                return max(32, abs(sc.params[e[1]]).bit_length() + 1), True
            raise VSimError('{}: identifier {} is not declared'.format(sc.path, e[1]))
        if k == 'index':
            s = self.sig(sc, e[1])
            if s.mem is not None:
                return s.width, False
            return 1, False
        if k == 'part':
            a, b = const_eval(e[2], sc.params), const_eval(e[3], sc.params)
            return abs(a - b) + 1, False
        if k == 'sysf':
            w, _ = self.size(sc, e[2])
            return w, e[1] == '$signed'
        if k == 'cat':
            return sum(self.size(sc, x)[0] for x in e[1]), False
        if k == 'rep':
            n = const_eval(e[1], sc.params)
            if n <= 0:
                raise VSimError('{}: replication with a non-positive count {}'.format(sc.path, n))
            return n * sum(self.size(sc, x)[0] for x in e[2]), False
        if k == 'un':
            op = e[1]
            if op in ('!', '&', '|', '^', '~&', '~|', '~^', '^~'):
                return 1, False
            return self.size(sc, e[2])
        if k == 'bin':
            op = e[1]
            if op in ('==', '!=', '===', '!==', '<', '<=', '>', '>=', '&&', '||'):
                return 1, False
            wa, sa = self.size(sc, e[2])
            if op in ('<<', '>>', '<<<', '>>>', '**'):
                return wa, sa
            wb, sb = self.size(sc, e[3])
            return max(wa, wb), sa and sb
        if k == 'tern':
            wa, sa = self.size(sc, e[2])
            wb, sb = self.size(sc, e[3])
            return max(wa, wb), sa and sb
        raise VSimError('cannot size expression ' + str(k))

    def eval_self(self, sc, e):
        w, s = self.size(sc, e)
        return self.eval(sc, e, w, s)

    def check_signed_store(self, sc, lv, e, lw):
        """domain guard: a value of 2**(w-1) or more stored into a signed variable (a Verilog integer) reads back negative:
        outside the domain in which Python agrees (unsigned targets wrap like Wire.put does)"""
        if not self.guard or lv[0] != 'id':
            return
        s = sc.sigs.get(lv[1])
        if s is None or s.mem is not None:
            return
        try:
            v = self.ideal(sc, e)
        except Undefined:
            return
        if s.signed and not (-(1 << (lw - 1)) <= v < (1 << (lw - 1))):
            self.domain_violations += 1

    def eval_assign(self, sc, e, lhs_width):
        w, s = self.size(sc, e)
        W = max(w, lhs_width)
        if self.guard:
            self.check_domain(sc, e, W, s)
        return self.eval(sc, e, W, s) & mask(lhs_width)

    # ---- domain guard (property C02): does every node of the expression, evaluated with the sizes and types the
    # standard gives it, equal the value of the same node over unbounded integers?  A carry, a borrow or a sign lost
    # by sizing makes the two differ: the input is then outside the domain in which Python and Verilog can agree.
    def ideal(self, sc, e):
        k = e[0]
        if k in ('num', 'id', 'index', 'part', 'cat', 'rep', 'sysf'):
            w, s = self.size(sc, e)
            v = self.operand(sc, e, w)
            return self.sval(v, w) if s else v
        if k == 'un':
            op = e[1]
            v = self.ideal(sc, e[2])
            if op == '!':
                return int(v == 0)
            if op == '-':
                return -v
            if op == '~':
                return ~v
            if op == '+':
                return v
            return self.eval_self(sc, e)          # reductions: defined on the pattern
        if k == 'bin':
            op = e[1]
            a, b = self.ideal(sc, e[2]), self.ideal(sc, e[3])
            if op == '&&':
                return int(a != 0 and b != 0)
            if op == '||':
                return int(a != 0 or b != 0)
            if op in ('==', '==='):
                return int(a == b)
            if op in ('!=', '!=='):
                return int(a != b)
            if op == '<':
                return int(a < b)
            if op == '<=':
                return int(a <= b)
            if op == '>':
                return int(a > b)
            if op == '>=':
                return int(a >= b)
            if op == '+':
                return a + b
            if op == '-':
                return a - b
            if op == '*':
                return a * b
            if op in ('/', '%'):
                if b == 0:
                    raise Undefined('division by zero')
                q = abs(a) // abs(b)
                if (a < 0) != (b < 0):
                    q = -q
                return q if op == '/' else a - q * b
            if op in ('<<', '<<<'):
                if b < 0 or b > 4096:
                    raise Undefined('shift amount')
                return a << b
            if op in ('>>', '>>>'):
                if b < 0:
                    raise Undefined('shift amount')
                return a >> b
            if op == '&':
                return a & b
            if op == '|':
                return a | b
            if op == '^':
                return a ^ b
            return self.eval_self(sc, e)
        if k == 'tern':
            return self.ideal(sc, e[2]) if self.ideal(sc, e[1]) != 0 else self.ideal(sc, e[3])
        raise VSimError('ideal: ' + str(k))

    def check_domain(self, sc, e, W, S):
        try:
            self._check_node(sc, e, W, S)
        except Undefined:
            pass

    def _check_node(self, sc, e, W, S):
        k = e[0]
        r = self.eval(sc, e, W, S)
        sized = self.sval(r, W) if S else r
        if sized != self.ideal(sc, e):
            self.domain_violations += 1
            return
        if k == 'un':
            if e[1] in ('-', '~', '+'):
                self._check_node(sc, e[2], W, S)
            else:
                w, s = self.size(sc, e[2])
                self._check_node(sc, e[2], w, s)
        elif k == 'bin':
            op = e[1]
            if op in ('/', '%', '>>', '>>>') and (self.ideal(sc, e[2]) < 0 or self.ideal(sc, e[3]) < 0):
                # Python floors (// % >>) where Verilog truncates / shifts logically: a negative operand here is
                # outside the stated (non-negative) domain
                self.domain_violations += 1
                return
            if op in ('&&', '||'):
                for x in (e[2], e[3]):
                    w, s = self.size(sc, x)
                    self._check_node(sc, x, w, s)
            elif op in ('==', '!=', '===', '!==', '<', '<=', '>', '>='):
                wa, sa = self.size(sc, e[2])
                wb, sb = self.size(sc, e[3])
                self._check_node(sc, e[2], max(wa, wb), sa and sb)
                self._check_node(sc, e[3], max(wa, wb), sa and sb)
            elif op in ('<<', '>>', '<<<', '>>>'):
                self._check_node(sc, e[2], W, S)
                w, s = self.size(sc, e[3])
                self._check_node(sc, e[3], w, s)
            else:
                self._check_node(sc, e[2], W, S)
                self._check_node(sc, e[3], W, S)
        elif k == 'tern':
            w, s = self.size(sc, e[1])
            self._check_node(sc, e[1], w, s)
            self._check_node(sc, e[2], W, S)
            self._check_node(sc, e[3], W, S)

    @staticmethod
    def ext(v, w, signed, W):
        """extend a w-bit value to W bits according to the expression type"""
        v &= mask(w)
        if W <= w:
            return v & mask(W)
        if signed and (v >> (w - 1)) & 1:
            return (v | (mask(W) ^ mask(w)))
        return v

    @staticmethod
    def sval(v, W):
        v &= mask(W)
        return v - (1 << W) if (v >> (W - 1)) & 1 else v

    def eval(self, sc, e, W, S):
        """value of e in a context of width W and type S (signed), as a W-bit pattern"""
        k = e[0]
        if k in ('num', 'id', 'index', 'part', 'cat', 'rep', 'sysf'):
            w, s = self.size(sc, e)
            v = self.operand(sc, e, w)
            # the operand is converted to the type of the expression; sign extension needs the operand itself signed
            return self.ext(v, w, S and s, W)
        if k == 'un':
            op = e[1]
            if op == '!':
                return int(self.eval_self(sc, e[2]) == 0)
            if op in ('&', '|', '^', '~&', '~|', '~^', '^~'):
                w, s = self.size(sc, e[2])
                v = self.eval(sc, e[2], w, s)
                if op in ('&', '~&'):
                    r = int(v == mask(w))
                elif op in ('|', '~|'):
                    r = int(v != 0)
                else:
                    r = bin(v).count('1') & 1
                if op[0] == '~' or op == '^~':
                    r ^= 1
                return r
            v = self.eval(sc, e[2], W, S)
            if op == '-':
                return (-v) & mask(W)
            if op == '~':
                return (~v) & mask(W)
            return v
        if k == 'bin':
            op = e[1]
            if op in ('&&', '||'):
                a = self.eval_self(sc, e[2]) != 0
                b = self.eval_self(sc, e[3]) != 0
                return int(a and b) if op == '&&' else int(a or b)
            if op in ('==', '!=', '===', '!==', '<', '<=', '>', '>='):
                wa, sa = self.size(sc, e[2])
                wb, sb = self.size(sc, e[3])
                w, s = max(wa, wb), sa and sb
                a, b = self.eval(sc, e[2], w, s), self.eval(sc, e[3], w, s)
                if s:
                    a, b = self.sval(a, w), self.sval(b, w)
                return int({'==': a == b, '!=': a != b, '===': a == b, '!==': a != b,
                            '<': a < b, '<=': a <= b, '>': a > b, '>=': a >= b}[op])
            if op in ('<<', '>>', '<<<', '>>>'):
                a = self.eval(sc, e[2], W, S)
                n = self.eval_self(sc, e[3])
                if op in ('<<', '<<<'):
                    return (a << n) & mask(W) if n < 4 * W + 64 else 0
                if op == '>>>' and S:
                    return (self.sval(a, W) >> n) & mask(W)
                return a >> n
            a, b = self.eval(sc, e[2], W, S), self.eval(sc, e[3], W, S)
            if op == '+':
                return (a + b) & mask(W)
            if op == '-':
                return (a - b) & mask(W)
            if op == '*':
                return (a * b) & mask(W)
            if op in ('/', '%'):
                if b == 0:
                    raise Undefined('division by zero')
                if S:
                    x, y = self.sval(a, W), self.sval(b, W)
                    q = abs(x) // abs(y)
                    if (x < 0) != (y < 0):
                        q = -q
                    r = x - q * y
                    return (q if op == '/' else r) & mask(W)
                return (a // b if op == '/' else a % b) & mask(W)
            if op == '&':
                return a & b
            if op == '|':
                return a | b
            if op == '^':
                return a ^ b
            if op in ('^~', '~^'):
                return (~(a ^ b)) & mask(W)
            if op == '**':
                n = self.eval_self(sc, e[3])
                return pow(a, n, 1 << W)
            raise VSimError('unsupported operator ' + op)
        if k == 'tern':
            c = self.eval_self(sc, e[1])
            return self.eval(sc, e[2] if c != 0 else e[3], W, S)
        raise VSimError('cannot evaluate ' + str(k))

    def operand(self, sc, e, w):
        k = e[0]
        if k == 'num':
            return e[1] & mask(w)
        if k == 'id':
            if e[1] in sc.sigs:
                return sc.sigs[e[1]].value
            return sc.params[e[1]] & mask(w)
        if k == 'index':
            s = self.sig(sc, e[1])
            i = self.eval_self(sc, e[2])
            if s.mem is not None:
                if not (s.mem_lo <= i <= s.mem_hi):
                    if self.oob_fill is None:
                        raise Undefined('memory index out of range')
                    self.oob_reads += 1
                    return mask(s.width) if self.oob_fill else 0
                return s.mem.get(i, 0)
            b = i - s.lsb
            if not (0 <= b < s.width):
                if self.oob_fill is None:
                    raise Undefined('bit select out of range')
                self.oob_reads += 1
                return self.oob_fill
            return (s.value >> b) & 1
        if k == 'part':
            s = self.sig(sc, e[1])
            a, b = const_eval(e[2], sc.params), const_eval(e[3], sc.params)
            lo = min(a, b) - s.lsb
            hi = max(a, b) - s.lsb
            if lo < 0:
                raise Undefined('part select out of range')
            if hi >= s.width:
                self.x_as_zero += 1
                if self.oob_fill is not None:
                    # the bits selected above the declared range are x (IEEE 1364-2005 5.2.1): zeros or ones on request
                    self.oob_reads += 1
                    v = (s.value >> lo) & mask(hi - lo + 1)
                    if self.oob_fill:
                        inside = max(0, s.width - lo)
                        v |= mask(hi - lo + 1) & ~mask(inside)
                    return v
            return (s.value >> lo) & mask(hi - lo + 1)
        if k == 'sysf':
            return self.eval_self(sc, e[2])
        if k == 'cat':
            v = 0
            for x in e[1]:
                xw, _ = self.size(sc, x)
                v = (v << xw) | self.eval_self(sc, x)
            return v
        if k == 'rep':
            n = const_eval(e[1], sc.params)
            inner = 0
            iw = 0
            for x in e[2]:
                xw, _ = self.size(sc, x)
                inner = (inner << xw) | self.eval_self(sc, x)
                iw += xw
            v = 0
            for _ in range(n):
                v = (v << iw) | inner
            return v
        raise VSimError('bad operand')

    # ---- test bench interface
    def poke(self, name, value):
        self.set_sig(self.sig(self.top, name), value)

    def peek(self, name):
        return self.sig(self.top, name).value

    def find(self, path):
        sc = self.top
        parts = path.split('.')
        for p in parts[:-1]:
            sc = sc.children[p]
        return sc.sigs[parts[-1]]

    def cycle(self, clk='clk'):
        """one full clock period: settle, rising edge, settle, falling edge, settle"""
        self.settle()
        if clk in self.top.sigs:
            self.poke(clk, 1)
            self.settle()
            self.poke(clk, 0)
            self.settle()

"""Helpers shared by the Verilog properties (C01, C02, C03, C19): wrapping blocks in a structural top,
requesting text from py4hw, canonicalisation."""
import re

import py4hw
from py4hw.base import Logic, HWSystem

from . import vlog, vcheck
from .netgen import Wrapper


class Refused(Exception):
    """Verilog generation raised: a refusal, which the properties allow"""
    pass


def generate(obj, hierarchy=True, history=(), between=None, **kw):
    """history: earlier requests made on the same generator object before the judged one - 'hier_top', 'flat_top',
    'hier_child', 'flat_child' (child = the first descendant emitted as its own module); their outcome is ignored"""
    try:
        g = py4hw.VerilogGenerator(obj)
        for h in history:
            try:
                target = obj
                if h.endswith('child'):
                    kids = [c for c in obj.children.values() if not g.isInlinable(c)]
                    if not kids:
                        continue
                    target = kids[0]
                if h.startswith('hier'):
                    g.getVerilogForHierarchy(target)
                else:
                    g.getVerilog(target)
            except Exception:
                pass
        if between is not None:
            between()          # an edit of the design made between the earlier requests and the judged one
        if hierarchy:
            return g.getVerilogForHierarchy(**kw)
        return g.getVerilog(**kw)
    except Exception as e:
        raise Refused('{}: {}'.format(type(e).__name__, str(e)[:200]))


def wrap(in_widths, out_widths, builder, in_names=None, out_names=None, top_name='top'):
    """HWSystem -> structural wrapper 'top' with ports -> builder(top, ins, outs)"""
    sysm = HWSystem()
    top = Wrapper(sysm, top_name)
    ins = []
    outs = []
    for i, w in enumerate(in_widths):
        n = in_names[i] if in_names else 'in_{}'.format(i)
        wire = sysm.wire(n, w)
        top.addIn(n, wire)
        ins.append(wire)
    for i, w in enumerate(out_widths):
        n = out_names[i] if out_names else 'out_{}'.format(i)
        wire = sysm.wire(n, w)
        top.addOut(n, wire)
        outs.append(wire)
    block = builder(top, ins, outs)
    return sysm, top, ins, outs, block


def module_base(name):
    return re.sub(r'_[0-9a-f]{6,}$', '', name)


def top_module_name(obj):
    return py4hw.getVerilogModuleName(obj, noInstanceNumber=True)


def objects_by_module_name(obj, gen=None, acc=None):
    """non-inlined descendants grouped by the module name they are emitted under"""
    gen = gen or py4hw.VerilogGenerator(obj)
    acc = {} if acc is None else acc
    for c in obj.children.values():
        if gen.isInlinable(c):
            continue
        acc.setdefault(py4hw.getVerilogModuleName(c), []).append(c)
        objects_by_module_name(c, gen, acc)
    return acc


_ID = re.compile(r'\b([A-Za-z_][A-Za-z0-9_]*?)_([0-9a-f]{9,})\b')


def canonical(text):
    """instance-unique suffixes (hex id()) renamed consistently in order of first appearance; declaration order
    ignored: returns (sorted tuple of canonical module texts)"""
    mapping = {}

    def ren(m):
        key = m.group(2)
        if key not in mapping:
            mapping[key] = 'ID%d' % len(mapping)
        return m.group(1) + '_' + mapping[key]
    t = _ID.sub(ren, text)
    return t


def canonical_modules(text):
    """order-insensitive canonical form: per module, header tokens + sorted body statements; instance-unique ids
    are abstracted by the *structure* they name (module bodies are compared up to a consistent renaming)"""
    mods = vlog.parse(text)
    return mods

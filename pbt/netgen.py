"""Netlist IR, Hypothesis generator, builder (real py4hw objects) and an independent reference evaluator.

A netlist description is pure JSON:
  {'inputs': [{'w': 8}, ...],                       # signal ids 'i0', 'i1', ...
   'nodes':  [{'op': 'And2', 'args': ['i0', 'n3'], 'w': 8, 'p': {...}, 'g': 0}, ...],   # output id 'n<k>'
   'outputs': ['n4', ...],
   'order':  [2, 0, 1, ...],                        # instantiation order of the nodes
   'groups': [{'parent': -1, 'enable': None}, ...]} # group 0.. : structural wrappers; -1 is the HWSystem

ref_* functions never call py4hw."""
import itertools

import py4hw
from py4hw.base import Logic, HWSystem, ClockDriver
from hypothesis import strategies as st

from .bench import mask, to_signed


def sig_w(desc, s):
    if s[0] == 'i':
        return desc['inputs'][int(s[1:])]['w']
    return desc['nodes'][int(s[1:])]['w']


# ---- operator table -------------------------------------------------------------------------------------------
# name -> (build(parent, name, args wires, out wire, params), eval(argvals, argwidths, w, params) -> raw int)
def _add_build(par, name, a, o, p):
    return py4hw.Add(par, name, a[0], a[1], o)


def _rotl(a, n, w):
    n %= w
    return ((a << n) | (a >> (w - n))) & mask(w) if n else a


OPS = {
    'And2': (lambda par, n, a, o, p: py4hw.And2(par, n, a[0], a[1], o), lambda v, ws, w, p: v[0] & v[1]),
    'Or2': (lambda par, n, a, o, p: py4hw.Or2(par, n, a[0], a[1], o), lambda v, ws, w, p: v[0] | v[1]),
    'Xor2': (lambda par, n, a, o, p: py4hw.Xor2(par, n, a[0], a[1], o), lambda v, ws, w, p: v[0] ^ v[1]),
    'Nand2': (lambda par, n, a, o, p: py4hw.Nand2(par, n, a[0], a[1], o), lambda v, ws, w, p: ~(v[0] & v[1])),
    'Not': (lambda par, n, a, o, p: py4hw.Not(par, n, a[0], o), lambda v, ws, w, p: ~v[0]),
    'Buf': (lambda par, n, a, o, p: py4hw.Buf(par, n, a[0], o), lambda v, ws, w, p: v[0]),
    'Add': (_add_build, lambda v, ws, w, p: v[0] + v[1]),
    'Sub': (lambda par, n, a, o, p: py4hw.Sub(par, n, a[0], a[1], o), lambda v, ws, w, p: v[0] - v[1]),
    'Mul': (lambda par, n, a, o, p: py4hw.Mul(par, n, a[0], a[1], o), lambda v, ws, w, p: v[0] * v[1]),
    'Neg': (lambda par, n, a, o, p: py4hw.Neg(par, n, a[0], o), lambda v, ws, w, p: -v[0]),
    'Mux2': (lambda par, n, a, o, p: py4hw.Mux2(par, n, a[0], a[1], a[2], o), lambda v, ws, w, p: v[2] if v[0] & 1 else v[1]),
    'Equal': (lambda par, n, a, o, p: py4hw.Equal(par, n, a[0], a[1], o), lambda v, ws, w, p: int(v[0] == v[1])),
    'Constant': (lambda par, n, a, o, p: py4hw.Constant(par, n, p['v'], o), lambda v, ws, w, p: p['v']),
    'ShiftLeftConstant': (lambda par, n, a, o, p: py4hw.ShiftLeftConstant(par, n, a[0], p['n'], o), lambda v, ws, w, p: v[0] << p['n']),
    'ShiftRightConstant': (lambda par, n, a, o, p: py4hw.ShiftRightConstant(par, n, a[0], p['n'], o), lambda v, ws, w, p: v[0] >> p['n']),
    'Range': (lambda par, n, a, o, p: py4hw.Range(par, n, a[0], p['high'], p['low'], o),
              lambda v, ws, w, p: (v[0] >> p['low']) & mask(p['high'] - p['low'] + 1)),
    'Bit': (lambda par, n, a, o, p: py4hw.Bit(par, n, a[0], p['bit'], o), lambda v, ws, w, p: (v[0] >> p['bit']) & 1),
    'ConcatenateLSBF': (lambda par, n, a, o, p: py4hw.ConcatenateLSBF(par, n, list(a), o),
                        lambda v, ws, w, p: sum(x << sum(ws[:k]) for k, x in enumerate(v))),
    'ConcatenateMSBF': (lambda par, n, a, o, p: py4hw.ConcatenateMSBF(par, n, list(a), o),
                        lambda v, ws, w, p: sum(x << sum(ws[k + 1:]) for k, x in enumerate(v))),
    'SignExtend': (lambda par, n, a, o, p: py4hw.SignExtend(par, n, a[0], o), lambda v, ws, w, p: to_signed(v[0], ws[0])),
    'ZeroExtend': (lambda par, n, a, o, p: py4hw.ZeroExtend(par, n, a[0], o), lambda v, ws, w, p: v[0]),
    'Repeat': (lambda par, n, a, o, p: py4hw.Repeat(par, n, a[0], o), lambda v, ws, w, p: mask(w) if v[0] else 0),
    'EqualConstant': (lambda par, n, a, o, p: py4hw.EqualConstant(par, n, a[0], p['k'], o), lambda v, ws, w, p: int(v[0] == p['k'])),
    'Sign': (lambda par, n, a, o, p: py4hw.Sign(par, n, a[0], o), lambda v, ws, w, p: (v[0] >> (ws[0] - 1)) & 1),
    'Abs': (lambda par, n, a, o, p: py4hw.Abs(par, n, a[0], o), lambda v, ws, w, p: abs(to_signed(v[0], ws[0]))),
    'Div': (lambda par, n, a, o, p: py4hw.Div(par, n, a[0], a[1], o), lambda v, ws, w, p: None if v[1] == 0 else v[0] // v[1]),
    'Mod': (lambda par, n, a, o, p: py4hw.Mod(par, n, a[0], a[1], o), lambda v, ws, w, p: None if v[1] == 0 else v[0] % v[1]),
    'SignedMul': (lambda par, n, a, o, p: py4hw.SignedMul(par, n, a[0], a[1], o),
                  lambda v, ws, w, p: to_signed(v[0], ws[0]) * to_signed(v[1], ws[1])),
    'And': (lambda par, n, a, o, p: _nary_gate(py4hw.And, par, n, a, o), lambda v, ws, w, p: _fold(v, lambda x, y: x & y)),
    'Or': (lambda par, n, a, o, p: _nary_gate(py4hw.Or, par, n, a, o), lambda v, ws, w, p: _fold(v, lambda x, y: x | y)),
    'Xor': (lambda par, n, a, o, p: _nary_gate(py4hw.Xor, par, n, a, o), lambda v, ws, w, p: _fold(v, lambda x, y: x ^ y)),
}
def _scalek_build(par, n, a, o, p):
    from .behav_blocks import ScaleK
    return ScaleK(par, n, a[0], o, p['k'])


OPS['ScaleK'] = (_scalek_build, lambda v, ws, w, p: (v[0] * p['k'] + 1) & 65535)


def _mealy_build(par, n, a, o, p):
    from .behav_blocks import MealyAcc
    return MealyAcc(par, n, a[0], o)


def _bitsel_build(par, n, a, o, p):
    # a multi-output leaf of which a single output is used: BitsLSBF with dangling outputs
    wa = a[0].getWidth()
    bits = [o if k == p['bit'] else par.wire('{}_unused{}'.format(n, k), 1) for k in range(wa)]
    return py4hw.BitsLSBF(par, n, a[0], bits)


def _poploop_build(par, n, a, o, p):
    from .behav_blocks import PopLoop
    return PopLoop(par, n, a[0], o)


OPS['PopLoop'] = (_poploop_build, lambda v, ws, w, p: bin(v[0]).count('1'))


def _localar_build(par, n, a, o, p):
    from .behav_blocks import LocalAR
    return LocalAR(par, n, a[0], o)


OPS['LocalAR'] = (_localar_build, lambda v, ws, w, p: ((v[0] + 1) * 3) & 65535)


def _ohmux_ref(v, ws, w, p):
    m = mask(ws[2])
    return ((v[2] if v[0] else 0) | (v[3] if v[1] else 0)) & m


# a 2-way OneHotMux with arbitrary (not necessarily one-hot) selectors: the block ORs the selected inputs
OPS['OneHotMux'] = (lambda par, n, a, o, p: py4hw.OneHotMux(par, n, [a[0], a[1]], [a[2], a[3]], o), _ohmux_ref)


# Mealy: out = state + a (raw, reduced by the wire); the state is updated at the edge (see ref_trace)
OPS['Mealy'] = (_mealy_build, None)
OPS['BitSel'] = (_bitsel_build, lambda v, ws, w, p: (v[0] >> p['bit']) & 1)
STATE_OPS = ('Reg', 'Mem')


def _nary_gate(ctor, par, n, a, o):
    """the caller keeps using its list after the gate was built (accumulate-and-instantiate loops do): the block must have
    taken its own copy"""
    lst = list(a)
    obj = ctor(par, n, lst, o)
    del lst[1:]
    return obj


def _fold(v, f):
    acc = v[0]
    for x in v[1:]:
        acc = f(acc, x)
    return acc


def is_state(node):
    return node['op'] in STATE_OPS


# ---- generator ---------------------------------------------------------------------------------------------------
WIDTHS = [1, 1, 2, 3, 4, 7, 8, 9, 16, 31, 32, 33, 64]
COMB_OPS_BASIC = ['And2', 'Or2', 'Xor2', 'Nand2', 'Not', 'Buf', 'Add', 'Sub', 'Mul', 'Neg', 'Mux2', 'Equal', 'Constant',
                  'ShiftLeftConstant', 'ShiftRightConstant', 'Range', 'Bit', 'ConcatenateLSBF', 'ConcatenateMSBF', 'SignExtend',
                  'ZeroExtend', 'Repeat', 'EqualConstant', 'Sign', 'Abs', 'SignedMul', 'And', 'Or', 'Xor', 'OneHotMux']


@st.composite
def netlists(draw, max_nodes=20, min_nodes=1, ops=None, n_regs=(0, 0), reg_opts=True, hierarchy=0, domains=False,
             widths=None, div=False, max_w=64, n_mems=(0, 0), reg_values=False, reg_d_any=False):
    ops = list(ops or COMB_OPS_BASIC)
    if div:
        ops += ['Div', 'Mod']
    widths = [w for w in (widths or WIDTHS) if w <= max_w]
    n_in = draw(st.integers(1, 4))
    inputs = [{'w': draw(st.sampled_from(widths))} for _ in range(n_in)]
    if domains:
        inputs[0]['w'] = 1          # a directly controllable enable candidate
    nodes = []
    sigs = [('i%d' % k, inputs[k]['w']) for k in range(n_in)]

    def new_node(op, args, w, p=None):
        nodes.append({'op': op, 'args': list(args), 'w': w, 'p': p or {}, 'g': -1})
        s = 'n%d' % (len(nodes) - 1)
        sigs.append((s, w))
        return s

    def pick(width=None, avail=None):
        pool = avail if avail is not None else sigs
        if width is None:
            return draw(st.sampled_from(pool))
        cands = [s for s in pool if s[1] == width]
        if cands and draw(st.integers(0, 9)) < 9:
            return draw(st.sampled_from(cands))
        # adapter: derive a signal of the requested width from any signal
        src = draw(st.sampled_from(pool))
        if src[1] == width:
            return src
        if src[1] > width:
            low = draw(st.integers(0, src[1] - width))
            if width == 1 and draw(st.booleans()):
                s = new_node('Bit', [src[0]], 1, {'bit': low})
            else:
                s = new_node('Range', [src[0]], width, {'high': low + width - 1, 'low': low})
        else:
            s = new_node(draw(st.sampled_from(['ZeroExtend', 'SignExtend'])), [src[0]], width)
        return (s, width)

    # registers first: their outputs are available to all combinational nodes (feedback only through state)
    k_regs = draw(st.integers(n_regs[0], n_regs[1]))
    reg_ids = []
    for _ in range(k_regs):
        w = draw(st.sampled_from(widths))
        nodes.append({'op': 'Reg', 'args': [None], 'w': w, 'p': {}, 'g': -1})
        reg_ids.append(len(nodes) - 1)
        sigs.append(('n%d' % (len(nodes) - 1), w))

    mem_ids = []
    for _ in range(draw(st.integers(n_mems[0], n_mems[1]))):
        w = draw(st.sampled_from([x for x in widths if x <= 16] or [widths[0]]))
        nodes.append({'op': 'Mem', 'args': [None], 'w': w, 'p': {'aw': draw(st.integers(1, 3))}, 'g': -1})
        mem_ids.append(len(nodes) - 1)
        sigs.append(('n%d' % (len(nodes) - 1), w))

    n_comb = draw(st.integers(min_nodes, max_nodes))
    for _ in range(n_comb):
        op = draw(st.sampled_from(ops))
        a = pick()
        wa = a[1]
        if op == 'Mealy':
            new_node(op, [a[0]], wa)
            continue
        if op == 'OneHotMux':
            new_node(op, [pick(1)[0], pick(1)[0], a[0], pick(wa)[0]], wa)
            continue
        if op == 'BitSel':
            new_node(op, [a[0]], 1, {'bit': draw(st.integers(0, wa - 1))})
            continue
        if op in ('And2', 'Or2', 'Xor2', 'Nand2'):
            b = pick(wa)
            new_node(op, [a[0], b[0]], wa)
        elif op in ('Not', 'Buf', 'Abs'):
            new_node(op, [a[0]], wa)
        elif op == 'Neg':
            new_node(op, [a[0]], draw(st.sampled_from([wa, wa, min(wa + 1, 64)])))
        elif op == 'Add':
            b = pick()
            w = draw(st.sampled_from(sorted({max(wa, b[1]), min(64, max(wa, b[1]) + 1)})))
            if w < wa:
                w = wa
            new_node(op, [a[0], b[0]], w)
        elif op in ('Sub', 'Mul', 'SignedMul', 'Div', 'Mod'):
            b = pick()
            w = draw(st.sampled_from(sorted({wa, b[1], min(64, wa + b[1]), max(wa, b[1])})))
            new_node(op, [a[0], b[0]], w)
        elif op == 'Mux2':
            sel = pick(1)
            b = pick(wa)
            new_node(op, [sel[0], a[0], b[0]], wa)
        elif op == 'Equal':
            b = pick(wa)
            new_node(op, [a[0], b[0]], 1)
        elif op == 'Constant':
            w = draw(st.sampled_from(widths))
            v = draw(st.one_of(st.integers(0, mask(w)), st.sampled_from([0, 1, mask(w)])))
            new_node(op, [], w, {'v': v})
        elif op in ('ShiftLeftConstant', 'ShiftRightConstant'):
            n = draw(st.one_of(st.integers(0, wa + 2), st.integers(0, 3)))
            w = draw(st.sampled_from([wa, wa, min(64, wa + n) or 1]))
            new_node(op, [a[0]], max(1, w), {'n': n})
        elif op == 'Range':
            low = draw(st.integers(0, wa - 1))
            high = draw(st.integers(low, wa - 1))
            new_node(op, [a[0]], high - low + 1, {'high': high, 'low': low})
        elif op == 'Bit':
            new_node(op, [a[0]], 1, {'bit': draw(st.integers(0, wa - 1))})
        elif op in ('ConcatenateLSBF', 'ConcatenateMSBF'):
            b = pick()
            if wa + b[1] > 64:
                new_node('Buf', [a[0]], wa)
            else:
                new_node(op, [a[0], b[0]], wa + b[1])
        elif op in ('SignExtend', 'ZeroExtend'):
            w = draw(st.sampled_from([w for w in widths if w >= wa] or [wa]))
            new_node(op, [a[0]], w)
        elif op == 'Repeat':
            s1 = pick(1)
            new_node(op, [s1[0]], draw(st.sampled_from(widths)))
        elif op == 'EqualConstant':
            new_node(op, [a[0]], 1, {'k': draw(st.one_of(st.integers(0, mask(wa)), st.sampled_from([0, mask(wa)])))})
        elif op == 'Sign':
            new_node(op, [a[0]], 1)
        elif op in ('And', 'Or', 'Xor'):
            k = draw(st.integers(2 if op == 'Xor' else 1, 4))
            args = [a[0]] + [pick(wa)[0] for _ in range(k - 1)]
            new_node(op, args, wa)
        else:
            raise ValueError(op)
    # close the registers: d (and optional enable / reset) can come from anywhere
    for rid in reg_ids:
        w = nodes[rid]['w']
        d = pick(w)
        if reg_d_any and draw(st.integers(0, 3)) == 0:
            d = pick()               # the d input of a register may be narrower or wider than q
        args = [d[0]]
        p = {'en': False, 'rst': False}
        if reg_opts and draw(st.booleans()):
            args.append(pick(1)[0])
            p['en'] = True
        if reg_opts and draw(st.integers(0, 3)) == 0:
            args.append(pick(1)[0])
            p['rst'] = True
        if reg_values:
            p['rv'] = draw(st.sampled_from([None, 0, 1, -1, 2, -2, 5, mask(w)]))
        nodes[rid]['args'] = args
        nodes[rid]['p'] = p
    for mid in mem_ids:
        aw = nodes[mid]['p']['aw']
        ra = pick(aw)
        wa = ra if draw(st.integers(0, 2)) == 0 else pick(aw)      # same-address read/write is frequent
        nodes[mid]['args'] = [ra[0], wa[0], pick(1)[0], pick(nodes[mid]['w'])[0]]
    # outputs: a few signals, always including the last node
    n_out = draw(st.integers(1, 3))
    node_sigs = ['n%d' % k for k in range(len(nodes))]
    outs = sorted(set([node_sigs[-1]] + [draw(st.sampled_from(node_sigs)) for _ in range(n_out - 1)]))
    # hierarchy
    groups = []
    if hierarchy:
        n_groups = draw(st.integers(0, 4))
        for gi in range(n_groups):
            parent = draw(st.integers(-1, gi - 1))
            # limit depth
            depth, pp = 1, parent
            while pp != -1:
                depth += 1
                pp = groups[pp]['parent']
            if depth > hierarchy:
                parent = -1
            groups.append({'parent': parent, 'enable': None})
        if groups:
            for nd in nodes:
                nd['g'] = draw(st.integers(-1, len(groups) - 1))
    if domains and groups:
        one_bit = [s for s, w in sigs if w == 1]
        for g in groups:
            if one_bit and draw(st.booleans()):
                g['enable'] = draw(st.sampled_from(one_bit + ['i0'] * (1 + len(one_bit) // 2)))
    order = draw(st.permutations(list(range(len(nodes)))))
    return {'inputs': inputs, 'nodes': nodes, 'outputs': outs, 'order': list(order), 'groups': groups}


def input_vectors(desc, n_cycles):
    from .cat_arith import value_st
    return st.lists(st.tuples(*[value_st(i['w']) for i in desc['inputs']]).map(list), min_size=n_cycles, max_size=n_cycles)


# ---- reference evaluation --------------------------------------------------------------------------------------------
class CombCycle(Exception):
    pass


def comb_order(desc):
    """topological order of the stateless nodes; raises CombCycle when a combinational cycle exists"""
    nodes = desc['nodes']
    state = {}
    order = []

    def visit(k, stack):
        stt = state.get(k)
        if stt == 2:
            return
        if stt == 1:
            raise CombCycle('cycle through n%d' % k)
        state[k] = 1
        nd = nodes[k]
        if not is_state(nd):
            for a in nd['args']:
                if a[0] == 'n' and not is_state(nodes[int(a[1:])]):
                    visit(int(a[1:]), stack)
        state[k] = 2
        if not is_state(nd):
            order.append(k)

    import sys
    sys.setrecursionlimit(max(sys.getrecursionlimit(), len(nodes) * 3 + 1000))
    for k in range(len(nodes)):
        visit(k, [])
    return order


def ref_settle(desc, order, invals, regvals, raw_out=None, mealy=None):
    """values of every signal given the input values and the register outputs; undefined (div by 0) -> None"""
    vals = {}
    for k, v in enumerate(invals):
        vals['i%d' % k] = v & mask(desc['inputs'][k]['w'])
    nodes = desc['nodes']
    for k, nd in enumerate(nodes):
        if is_state(nd):
            vals['n%d' % k] = regvals[k]
    for k in order:
        nd = nodes[k]
        av = [vals[a] for a in nd['args']]
        if any(x is None for x in av):
            vals['n%d' % k] = None
            continue
        ws = [sig_w(desc, a) for a in nd['args']]
        if nd['op'] == 'Mealy':
            ms = (mealy or {}).get(k, 0)
            raw = None if ms is None else ms + av[0]
        else:
            raw = OPS[nd['op']][1](av, ws, nd['w'], nd['p'])
        if raw is None:
            vals['n%d' % k] = None
            continue
        red = raw & mask(nd['w'])
        if raw_out is not None and raw != red:
            raw_out.append(k)
        vals['n%d' % k] = red
    return vals


def reg_init(desc):
    """power-up output of every state element: a register shows its reset value, a memory read port 0"""
    return {k: ((nd['p'].get('rv') or 0) & mask(nd['w'])) if nd['op'] == 'Reg' else 0
            for k, nd in enumerate(desc['nodes']) if is_state(nd)}


def group_enable_sig(desc, g):
    """enable signal of the nearest ancestor-or-self group carrying a clock driver, None for the base clock
    (a group may also carry an ungated driver of its own, 'clk': it ends the search)"""
    while g != -1:
        e = desc['groups'][g].get('enable')
        if e is not None:
            return e
        if desc['groups'][g].get('clk') is not None:
            return None
        g = desc['groups'][g]['parent']
    return None


def node_enable_sig(desc, k):
    """a leaf may carry a clock driver itself (p['cen']); otherwise the nearest ancestor's"""
    nd = desc['nodes'][k]
    if nd['p'].get('cen') is not None:
        return nd['p']['cen']
    return group_enable_sig(desc, nd['g'])


def ref_trace(desc, seq, raw_out=None):
    """Reference cycle simulation. Returns [v0, v1, ...]: v0 = signal values after simulator creation with the
    first input vector applied and no edge yet... (see run protocol in props); element t+1 = values after the edge
    at which inputs seq[t] were applied.  Registers power up with output 0."""
    order = comb_order(desc)
    nodes = desc['nodes']
    regs = reg_init(desc)
    memdata = {k: [0] * (1 << nd['p']['aw']) for k, nd in enumerate(nodes) if nd['op'] == 'Mem'}
    mealy = {k: 0 for k, nd in enumerate(nodes) if nd['op'] == 'Mealy'}
    trace = []
    for t, invals in enumerate(seq):
        pre = ref_settle(desc, order, invals, regs, mealy=mealy)
        new = dict(regs)
        newm = dict(mealy)
        for k in mealy:
            nd = nodes[k]
            en_sig = node_enable_sig(desc, k)
            a = pre[nd['args'][0]]
            if en_sig is not None and pre[en_sig] == 0:
                continue
            if a is None or mealy[k] is None or (en_sig is not None and pre[en_sig] is None):
                newm[k] = None
            else:
                newm[k] = (mealy[k] ^ a) & mask(nd['w'])
        for k in regs:
            nd = nodes[k]
            en_sig = node_enable_sig(desc, k)
            if en_sig is not None:
                ev = pre[en_sig]
                if ev is None:
                    new[k] = None
                    continue
                if ev == 0:
                    continue        # gated: holds
            args = nd['args']
            if nd['op'] == 'Mem':
                ra, wa, we, wd = [pre[a] for a in args]
                if ra is None or wa is None or we is None or (we and wd is None):
                    new[k] = None
                    memdata[k] = [None] * len(memdata[k])
                    continue
                new[k] = memdata[k][ra]              # read returns the content before a same-cycle write
                if we:
                    memdata[k] = list(memdata[k])
                    memdata[k][wa] = wd
                continue
            d = pre[args[0]]
            j = 1
            en = 1
            rst = 0
            if nd['p'].get('en'):
                en = pre[args[j]]
                j += 1
            if nd['p'].get('rst'):
                rst = pre[args[j]]
            if en is None or rst is None or (d is None and en and rst != 1) or regs[k] is None:
                new[k] = None
            elif rst == 1:
                new[k] = (nd['p'].get('rv') or 0) & mask(nd['w'])
            elif en:
                new[k] = d & mask(nd['w'])        # a d input of another width is truncated / zero extended
        regs = new
        mealy = newm
        trace.append(ref_settle(desc, order, invals, regs, raw_out, mealy=mealy))
    return trace


# ---- builder ---------------------------------------------------------------------------------------------------
class Wrapper(Logic):
    """structural wrapper block whose ports are added from the cut of the netlist"""

    def __init__(self, parent, name):
        super().__init__(parent, name)


class NamedWrapper(Wrapper):
    """a wrapper class that provides its module name (structureName), like the user classes of the documentation"""

    def __init__(self, parent, name, sname):
        super().__init__(parent, name)
        self._sname = sname

    def structureName(self):
        return self._sname


class Built:
    pass


def _chain(desc, g):
    """groups from the top-most ancestor down to g"""
    ch = []
    while g != -1:
        ch.append(g)
        g = desc['groups'][g]['parent']
    return ch[::-1]


def group_inside(desc, g, anc):
    """group g is anc or lies below it"""
    while g != -1:
        if g == anc:
            return True
        g = desc['groups'][g]['parent']
    return False


def _lca(desc, gs):
    chains = [_chain(desc, g) for g in gs]
    common = -1
    for level in range(min(len(c) for c in chains)):
        vals = {c[level] for c in chains}
        if len(vals) == 1:
            common = chains[0][level]
        else:
            break
    return common


def build(desc, names=None, sysname=None, hook=None):
    """instantiate the description with real py4hw objects under a fresh HWSystem"""
    b = Built()
    b.desc = desc
    b.sys = HWSystem() if sysname is None else HWSystem(name=sysname)
    nodes = desc['nodes']
    groups = desc.get('groups') or []
    names = names or {}

    # 1. users of every signal
    users = {}
    for k, nd in enumerate(nodes):
        for a in nd['args']:
            users.setdefault(a, set()).add(nd['g'])
    for gi, g in enumerate(groups):
        if g.get('enable') is not None:
            users.setdefault(g['enable'], set()).add(g['parent'])   # the driver object lives in the parent scope
        if g.get('clk') is not None:
            users.setdefault(g['clk']['wire'], set()).add(g['parent'])
    for k, nd in enumerate(nodes):
        if nd['p'].get('cen') is not None:
            users.setdefault(nd['p']['cen'], set()).add(nd['g'])
    for o in desc['outputs']:
        users.setdefault(o, set()).add(-1)
    driver_group = {}
    for k in range(len(desc['inputs'])):
        driver_group['i%d' % k] = -1
    for k, nd in enumerate(nodes):
        driver_group['n%d' % k] = nd['g']

    # 2. wrappers are created lazily, in first-use order
    b.group_obj = {}

    def gobj(g):
        if g == -1:
            return b.sys
        o = b.group_obj.get(g)
        if o is None:
            par = gobj(groups[g]['parent'])
            if groups[g].get('sname'):
                o = NamedWrapper(par, names.get('g%d' % g, 'grp%d' % g), groups[g]['sname'])
            else:
                o = Wrapper(par, names.get('g%d' % g, 'grp%d' % g))
            b.group_obj[g] = o
        return o

    # 3. wires: owned by the lowest common ancestor of the driver and all users
    b.wire = {}
    owner = {}
    per_owner = {}
    all_sigs = list(driver_group.keys())

    def make_wire(s):
        gs = {driver_group[s]} | users.get(s, set())
        own = _lca(desc, list(gs)) if -1 not in gs else -1
        owner[s] = own
        if desc.get('scoped_wire_names') and s not in names:
            # wire names are unique only inside the block that owns the wire: every scope numbers its wires from 0, so a
            # block's internal wire regularly carries the name of an outer wire that reaches the block through a port
            per_owner[own] = per_owner.get(own, 0) + 1
            wname = 'net{}'.format(per_owner[own] - 1)
        else:
            wname = names.get(s, s)
        b.wire[s] = gobj(own).wire(wname, sig_w(desc, s))

    # 4. instantiate in the requested order; wires are created on demand (py4hw allows readers before drivers)
    b.node_obj = {}
    b.ports_added = set()

    def ensure_wire(s):
        if s not in b.wire:
            make_wire(s)
        return b.wire[s]

    def ensure_ports(s):
        """add in/out ports on every wrapper between the owner of s and its users / driver"""
        w = ensure_wire(s)
        own = owner[s]
        dg = driver_group[s]
        for g in ({dg} | users.get(s, set())):
            for anc in _chain(desc, g):
                if anc == own or anc in _chain(desc, own):
                    continue
                # anc lies strictly below the owner on the way to g
                key = (s, anc)
                if key in b.ports_added:
                    continue
                b.ports_added.add(key)
                contains_driver = anc in _chain(desc, dg)
                o = gobj(anc)
                pname = names.get('p_' + s, names.get(s, s))
                if contains_driver:
                    o.addOut(pname, w)
                else:
                    o.addIn(pname, w)

    for pos_in_order, k in enumerate(desc['order']):
        if hook is not None and hook[0] == pos_in_order:
            for kk in range(len(desc['inputs'])):
                ensure_wire('i%d' % kk)
            b.inputs = [b.wire['i%d' % kk] for kk in range(len(desc['inputs']))]
            hook[1](b)
        nd = nodes[k]
        par = gobj(nd['g'])
        s = 'n%d' % k
        for a in nd['args']:
            ensure_ports(a)
        ensure_ports(s)
        args = [b.wire[a] for a in nd['args']]
        out = b.wire[s]
        iname = names.get('inst%d' % k, 'u%d' % k)
        if nd['op'] == 'Reg':
            j = 1
            en = rst = None
            if nd['p'].get('en'):
                en = args[j]
                j += 1
            if nd['p'].get('rst'):
                rst = args[j]
            b.node_obj[k] = py4hw.Reg(par, iname, args[0], out, enable=en, reset=rst, reset_value=nd['p'].get('rv'))
        elif nd['op'] == 'Mem':
            b.node_obj[k] = py4hw.SynchronousMemory(par, iname, args[0], args[1], args[2], out, args[3])
        else:
            b.node_obj[k] = OPS[nd['op']][0](par, iname, args, out, nd['p'])
    for k in range(len(desc['inputs'])):
        ensure_wire('i%d' % k)
    for o in desc['outputs']:
        ensure_ports(o)
    # 5. clock domains.  desc['clock_names'] == 'shared': every gated driver object carries the same name (a reusable
    # block that builds ClockDriver('gclk', enable=en) in its constructor, instantiated several times);
    # desc['late_clocks']: the simulator is obtained once before the drivers are attached (the after-construction idiom
    # `dut.clockDriver = ...` followed by another getSimulator())
    shared = desc.get('clock_names') == 'shared'
    if desc.get('late_clocks'):
        for g in groups:
            if g.get('enable') is not None:
                ensure_ports(g['enable'])
        for nd in nodes:
            if nd['p'].get('cen') is not None:
                ensure_ports(nd['p']['cen'])
        b.sys.getSimulator()
    chain = bool(desc.get('base_chain'))    # a gated driver names the nearest gated ancestor's driver as its base
    for gi, g in enumerate(groups):
        if g.get('enable') is not None and gi in b.group_obj:
            ensure_ports(g['enable'])
            base = b.sys.clockDriver
            if chain:
                anc = g['parent']
                while anc != -1:
                    if groups[anc].get('enable') is not None and anc in b.group_obj and b.group_obj[anc].clockDriver is not None:
                        base = b.group_obj[anc].clockDriver
                        break
                    anc = groups[anc]['parent']
            b.group_obj[gi].clockDriver = ClockDriver('gclk' if shared else 'gclk%d' % gi, base=base, enable=b.wire[g['enable']])
        elif g.get('clk') is not None and gi in b.group_obj:
            ensure_ports(g['clk']['wire'])
            b.group_obj[gi].clockDriver = ClockDriver(g['clk']['name'], 25E6, wire=b.wire[g['clk']['wire']])
    for k, nd in enumerate(nodes):
        if nd['p'].get('cen') is not None and k in b.node_obj:
            ensure_ports(nd['p']['cen'])
            b.node_obj[k].clockDriver = ClockDriver('gclk' if shared else 'lclk%d' % k, base=b.sys.clockDriver, enable=b.wire[nd['p']['cen']])
    b.inputs = [b.wire['i%d' % k] for k in range(len(desc['inputs']))]
    b.outputs = [b.wire[o] for o in desc['outputs']]
    return b

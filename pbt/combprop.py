"""Shared driver for "block computes its function for every input" properties (C07, C08, C14):
an exhaustive small-width stratum (every accepted configuration with all widths <= W, every input
vector) and a Hypothesis stratum (large widths, boundary-biased operands)."""
import itertools
import traceback

from hypothesis import strategies as st

from .bench import Bench, mask
from .cat_arith import value_st
from .runner import ok, fail, discard, exception_signature, HarnessError


def build_bench(entry, cfg, alias=None):
    """alias: {j: i} - input position j is attached to the wire of input position i (one wire on two ports)"""
    if not alias:
        return Bench(entry.inw(cfg), entry.outw(cfg), lambda s, i, o: entry.build(s, i, o, cfg))
    amap = {int(j): int(i) for j, i in alias.items()}
    return Bench(entry.inw(cfg), entry.outw(cfg), lambda s, i, o: entry.build(s, [i[amap.get(k, k)] for k in range(len(i))], o, cfg))


def outname(entry, k):
    if entry.outnames and k < len(entry.outnames):
        return entry.outnames[k]
    return 'out{}'.format(k)


def extreme(v, w):
    return v == mask(w) or v == (1 << (w - 1))


def check_one(entry, cfg, bench, ins, inw):
    """returns (status, payload): 'skip' | 'ok' (nt flag) | 'fail' (sig, msg)"""
    raw = entry.ref(cfg, ins)
    if raw is None:
        return 'skip', None
    try:
        got = bench.eval(ins)
    except HarnessError:
        raise
    except Exception as e:  # the block accepted the configuration but cannot compute
        es = exception_signature(e) or 'exc:{}'.format(type(e).__name__)
        return 'fail', ('{}|{}|{}'.format(entry.name, entry.cls(cfg), es),
                        '{} cfg={} in={} raised {!r}'.format(entry.name, cfg, ins, e))
    nt = False
    for k, (r, w) in enumerate(zip(raw, bench.outs)):
        exp = r & mask(w.getWidth())
        if exp != r:
            nt = True
        if got[k] != exp:
            return 'fail', ('{}|{}|mismatch:{}'.format(entry.name, entry.cls(cfg), outname(entry, k)),
                            '{} cfg={} in={} output {}: got {} expected {} (unreduced {})'.format(
                                entry.name, cfg, ins, outname(entry, k), got[k], exp, r))
    if not nt:
        nt = any(extreme(v, w) for v, w in zip(ins, inw))
    return 'ok', nt


def make_run_case(cat):
    cache = {}

    def run_case(case):
        entry = cat.get(case['block'])
        if entry is None:
            raise HarnessError('unknown block ' + str(case['block']))
        cfg = case['cfg']
        alias = case.get('alias') or None
        key = (case['block'], tuple(sorted((k, str(v)) for k, v in cfg.items())), str(sorted(alias.items())) if alias else '')
        b = cache.get(key)
        if b is None:
            try:
                b = build_bench(entry, cfg, alias)
            except HarnessError:
                raise
            except Exception as e:
                b = ('rejected', repr(e)[:200])
            if len(cache) > 64:
                cache.clear()
            cache[key] = b
        if isinstance(b, tuple):
            return discard('rejected_by_constructor', [case['block'] + ':rejected'])
        inw = entry.inw(cfg)
        ins = [v & mask(w) for v, w in zip(case['in'], inw)]
        if len(ins) != len(inw):
            raise HarnessError('bad case arity')
        if alias:
            for j, i in alias.items():
                if inw[int(j)] != inw[int(i)]:
                    raise HarnessError('alias between inputs of different widths')
                ins[int(j)] = ins[int(i)]
        status, payload = check_one(entry, cfg, b, ins, inw)
        if alias and status == 'fail':
            payload = (payload[0] + '|one_wire_on_two_ports', payload[1] + ' ; inputs {} share one wire'.format(sorted(alias.items())))
        if status == 'skip':
            return discard('outside_domain', [case['block']])
        if status == 'fail':
            return fail(payload[0], payload[1], cls=[case['block']])
        return ok(payload, [case['block']])

    return run_case


def case_strategy(cat, names=None):
    names = sorted(names or cat.keys())

    def for_block(name):
        entry = cat[name]

        def for_cfg(cfg):
            return st.tuples(*[value_st(w) for w in entry.inw(cfg)]).map(
                lambda vs: {'block': name, 'cfg': cfg, 'in': list(vs)})
        return entry.strat.flatmap(for_cfg)

    return st.sampled_from(names).flatmap(for_block)


def alias_strategy(cat, names=None):
    """the same wire attached to two input ports of equal width (x + x, {s, s, a}, mux with both data inputs tied ...)"""
    names = sorted(n for n in (names or cat.keys()))

    def for_block(name):
        entry = cat[name]

        def for_cfg(cfg):
            try:
                inw = entry.inw(cfg)
            except Exception:
                inw = []
            pairs = [(j, i) for i in range(len(inw)) for j in range(i + 1, len(inw)) if inw[i] == inw[j]]
            if not pairs:
                return st.just(None)
            return st.tuples(st.sampled_from(pairs), st.tuples(*[value_st(w) for w in inw])).map(
                lambda t: {'block': name, 'cfg': cfg, 'in': list(t[1]), 'alias': {str(t[0][0]): t[0][1]}})
        return entry.strat.flatmap(for_cfg)

    return st.sampled_from(names).flatmap(for_block).filter(lambda c: c is not None)


def enum_tasks(cat, W, max_in_bits, names=None, chunk=40):
    tasks = []
    for name in sorted(names or cat.keys()):
        cfgs = [c for c in cat[name].small(W)]
        for i in range(0, len(cfgs), chunk):
            tasks.append({'block': name, 'cfgs': cfgs[i:i + chunk], 'max_in_bits': max_in_bits})
    return tasks


def make_run_task(cat):
    def run_task(task):
        entry = cat[task['block']]
        evals = nt = 0
        cls = {}
        discards = {}
        fails = {}
        samples = []
        accepted = 0
        for cfg in task['cfgs']:
            try:
                b = build_bench(entry, cfg)
            except HarnessError:
                raise
            except Exception as e:
                discards['rejected_by_constructor'] = discards.get('rejected_by_constructor', 0) + 1
                continue
            accepted += 1
            inw = entry.inw(cfg)
            if sum(inw) > task['max_in_bits']:
                discards['too_many_input_bits'] = discards.get('too_many_input_bits', 0) + 1
                continue
            for ins in itertools.product(*[range(1 << w) for w in inw]):
                ins = list(ins)
                status, payload = check_one(entry, cfg, b, ins, inw)
                if status == 'skip':
                    discards['outside_domain'] = discards.get('outside_domain', 0) + 1
                    continue
                evals += 1
                if status == 'fail':
                    sig, msg = payload
                    f = fails.get(sig)
                    if f is None:
                        fails[sig] = {'sig': sig, 'msg': msg, 'count': 1,
                                      'case': {'block': entry.name, 'cfg': cfg, 'in': ins}}
                    else:
                        f['count'] += 1
                    nt += 1
                else:
                    if payload:
                        nt += 1
                        if len(samples) < 1 and evals % 7 == 3:
                            samples.append({'case': {'block': entry.name, 'cfg': cfg, 'in': ins},
                                            'observed': b.read()})
        cls[entry.name] = evals
        cls[entry.name + ':configs_accepted'] = accepted
        return {'evals': evals, 'nt': nt, 'cls': cls, 'discards': discards,
                'fails': list(fails.values()), 'samples': samples}
    return run_task


# ---- every width 1..Wmax with edge operands -----------------------------------------------------------------------
def _edge_values(w):
    m = mask(w)
    vals = [0, 1, m, m >> 1, 1 << (w - 1), m - 1 if w > 1 else 0, m // 3, (m // 3) << 1 & m]
    # decimal boundaries matter for BCD style blocks, powers of two +-1 for shifters and counters
    k = 1
    while 10 ** k <= m:
        k += 1
    if k >= 2:
        vals += [10 ** (k - 1), 10 ** (k - 1) - 1]
    out = []
    for v in vals:
        v &= m
        if v not in out:
            out.append(v)
    return out


def width_cfgs(entry, w):
    """configurations of the entry in which every width key is w (other keys as in its smallest legal configuration);
    blocks whose result width has a natural relation to the operand width add those as well"""
    if w > WIDTH_CAP.get(entry.name, 10 ** 9):
        return []
    try:
        template = next(iter(entry.small(4)))
    except StopIteration:
        return []
    wkeys = [k for k in template if k in ('w', 'wa', 'wb', 'wr', 'ws', 'wd')]
    if not wkeys or any(not isinstance(template[k], int) for k in wkeys):
        return []
    cfgs = [dict(template, **{k: w for k in wkeys})]
    if ('Shift' in entry.name or 'Rotate' in entry.name) and 'wb' in wkeys:
        # the second operand is an amount: as wide as needed to address every bit position, plus one
        nb = max(1, (w - 1).bit_length())
        if 'Rotate' in entry.name:
            # every stage constant 2**i (i < wb) must itself be a legal rotation amount (<= wa), see cat_arith._rot_small
            cfgs = [dict(cfgs[0], wb=max(1, w.bit_length())), dict(cfgs[0], wb=max(1, w.bit_length() - 1))]
        else:
            cfgs = [dict(cfgs[0], wb=nb), dict(cfgs[0], wb=nb + 1)]
    if entry.name == 'BinaryToBCD':
        need = len(str(mask(w)))
        cfgs = [dict(template, wa=w, wr=4 * d) for d in (need - 1, need, need + 1) if d >= 1]
    elif 'wr' in wkeys and 'wa' in wkeys:
        cfgs.append(dict(cfgs[0], wr=w + 1))
        cfgs.append(dict(cfgs[0], wr=2 * w))
    return cfgs


def make_width_task(cat):
    run_case = make_run_case(cat)

    def run_task(task):
        entry = cat[task['block']]
        evals = nt = 0
        cls = {}
        discards = {}
        fails = {}
        for w in task['widths']:
            for cfg in width_cfgs(entry, w):
                try:
                    inw = entry.inw(cfg)
                except Exception:
                    continue
                pools = [_edge_values(x) for x in inw]
                # diagonal + a few mixed vectors instead of the full product
                vecs = []
                L = max(len(p) for p in pools) if pools else 0
                for i in range(L):
                    vecs.append([p[i % len(p)] for p in pools])
                    vecs.append([p[(i + j) % len(p)] for j, p in enumerate(pools)])
                seen = set()
                for vec in vecs:
                    if tuple(vec) in seen:
                        continue
                    seen.add(tuple(vec))
                    case = {'block': task['block'], 'cfg': cfg, 'in': vec}
                    r = run_case(case)
                    if r['discard']:
                        discards[r['discard']] = discards.get(r['discard'], 0) + 1
                        continue
                    evals += 1
                    nt += 1 if r['nt'] else 0
                    if r['fail']:
                        sg = r['fail']['sig']
                        if sg not in fails:
                            fails[sg] = {'sig': sg, 'msg': r['fail']['msg'], 'count': 1, 'case': case}
                        else:
                            fails[sg]['count'] += 1
        cls[task['block'] + ':every_width'] = evals
        return {'evals': evals, 'nt': nt, 'cls': cls, 'discards': discards, 'fails': list(fails.values()), 'samples': []}
    return run_task


# construction time of the recursive leading-zero counter explodes above 64 bits (30 s at 70, minutes at 100): a matter
# of speed, not of the property; it is exercised up to 64 bits
WIDTH_CAP = {'CountLeadingZeros': 64}
QUICK_WIDTHS = list(range(1, 18)) + [24, 31, 32, 33, 48, 63, 64, 65, 70]


def width_tasks(cat, widths, chunk=35):
    tasks = []
    widths = list(widths)
    for name in sorted(cat):
        if name.startswith('hlp.'):
            continue
        for lo in range(0, len(widths), chunk):
            tasks.append({'block': name, 'widths': widths[lo:lo + chunk]})
    return tasks

"""Catalogue of the integer arithmetic blocks (property C07): legal configurations, builders and
reference functions.  Reference functions are written from the docstrings / the mathematical
definition on Python integers; they never call py4hw."""
import itertools
import math

import py4hw
from hypothesis import strategies as st

from .bench import mask, to_signed

WIDTHS_BIAS = [1, 2, 3, 4, 5, 7, 8, 9, 15, 16, 17, 31, 32, 33, 63, 64, 65, 128]


def width_st(lo=1, hi=128):
    return st.one_of(st.sampled_from([w for w in WIDTHS_BIAS if lo <= w <= hi] or [lo]),
                     st.integers(lo, min(hi, 12)), st.integers(lo, hi))


def value_st(w):
    """boundary-biased operand of width w"""
    m = mask(w)
    bnd = sorted({0, 1, m, m - 1 if m > 0 else 0, 1 << (w - 1), (1 << (w - 1)) - 1 if w > 1 else 0,
                  ((1 << (w - 1)) + 1) & m})
    return st.one_of(st.sampled_from(bnd), st.integers(0, m),
                     st.integers(0, w - 1).map(lambda k: 1 << k),
                     st.integers(0, w - 1).map(lambda k: m ^ (1 << k)))


class Entry:
    def __init__(self, name, keys, small, strat, inw, outw, build, ref, legal=None, cls=None,
                 in_domain=None, outnames=None):
        self.name = name
        self.keys = keys          # config keys
        self.small = small        # W -> iterable of cfgs (every legal cfg with all widths <= W)
        self.strat = strat        # hypothesis strategy of cfgs (may be illegal -> constructor rejects)
        self.inw = inw
        self.outw = outw
        self.build = build
        self.ref = ref            # (cfg, ins) -> list of raw ints (unreduced) or None if outside the domain
        self.cls = cls or default_cls
        self.outnames = outnames


def rel(a, b):
    return 'lt' if a < b else ('eq' if a == b else 'gt')


def default_cls(cfg):
    parts = []
    if 'wr' in cfg and 'wa' in cfg:
        parts.append('wr_{}_wa'.format(rel(cfg['wr'], cfg['wa'])))
    if 'wb' in cfg and 'wa' in cfg and 'n' not in cfg:
        parts.append('wb_{}_wa'.format(rel(cfg['wb'], cfg['wa'])))
    for k in sorted(cfg):
        if k in ('wa', 'wb', 'wr', 'n'):
            continue
        parts.append('{}={}'.format(k, cfg[k]))
    return ','.join(parts)


def prod_widths(keys, W, extra=None):
    """all width tuples <= W for the width keys, times the option lists in extra"""
    extra = extra or {}
    ek = sorted(extra)
    for ws in itertools.product(range(1, W + 1), repeat=len(keys)):
        base = dict(zip(keys, ws))
        for ev in itertools.product(*[extra[k] for k in ek]):
            c = dict(base)
            c.update(dict(zip(ek, ev)))
            yield c


def cfg_st(keys, extra=None, lo=1, hi=128):
    extra = extra or {}
    d = {k: width_st(lo, hi) for k in keys}
    d.update({k: st.sampled_from(v) for k, v in extra.items()})
    return st.fixed_dictionaries(d)


E = {}


def reg(e):
    E[e.name] = e
    return e


# ---- Add ---------------------------------------------------------------------------------------
def _add_build(sys, ins, outs, c):
    ci = ins[2] if c['ci'] else None
    co = outs[1] if c['co'] else None
    return py4hw.Add(sys, 'dut', ins[0], ins[1], outs[0], ci=ci, co=co, width_check=c['wc'])


def _add_ref(c, v):
    s = v[0] + v[1] + (v[2] if c['ci'] else 0)
    if c['co']:
        return [s, s >> c['wr']]
    return [s]


reg(Entry('Add', ['wa', 'wb', 'wr'],
          lambda W: prod_widths(['wa', 'wb', 'wr'], W, {'ci': [False, True], 'co': [False, True], 'wc': [False, True]}),
          cfg_st(['wa', 'wb', 'wr'], {'ci': [False, True], 'co': [False, True], 'wc': [False, True]}),
          lambda c: [c['wa'], c['wb']] + ([1] if c['ci'] else []),
          lambda c: [c['wr']] + ([1] if c['co'] else []),
          _add_build, _add_ref, outnames=['r', 'co']))

reg(Entry('AddCarryIn', ['wa', 'wb', 'wr'],
          lambda W: prod_widths(['wa', 'wb', 'wr'], W), cfg_st(['wa', 'wb', 'wr']),
          lambda c: [c['wa'], c['wb'], 1], lambda c: [c['wr']],
          lambda sys, i, o, c: py4hw.AddCarryIn(sys, 'dut', i[0], i[1], o[0], i[2]),
          lambda c, v: [v[0] + v[1] + v[2]]))

reg(Entry('Sub', ['wa', 'wb', 'wr'],
          lambda W: prod_widths(['wa', 'wb', 'wr'], W), cfg_st(['wa', 'wb', 'wr']),
          lambda c: [c['wa'], c['wb']], lambda c: [c['wr']],
          lambda sys, i, o, c: py4hw.Sub(sys, 'dut', i[0], i[1], o[0]),
          lambda c, v: [v[0] - v[1]]))

reg(Entry('SubBorrowIn', ['wa', 'wb', 'wr'],
          lambda W: prod_widths(['wa', 'wb', 'wr'], W), cfg_st(['wa', 'wb', 'wr']),
          lambda c: [c['wa'], c['wb'], 1], lambda c: [c['wr']],
          lambda sys, i, o, c: py4hw.SubBorrowIn(sys, 'dut', i[0], i[1], o[0], i[2]),
          lambda c, v: [v[0] - v[1] - v[2]]))

reg(Entry('Neg', ['wa', 'wr'],
          lambda W: prod_widths(['wa', 'wr'], W), cfg_st(['wa', 'wr']),
          lambda c: [c['wa']], lambda c: [c['wr']],
          lambda sys, i, o, c: py4hw.Neg(sys, 'dut', i[0], o[0]),
          # "negate" of a non-signed block: the operand is read as an unsigned integer of its own width
          lambda c, v: [-v[0]]))


def _abs_build(sys, i, o, c):
    return py4hw.Abs(sys, 'dut', i[0], o[0], o[1] if c['inv'] else None)


reg(Entry('Abs', ['wa', 'wr'],
          lambda W: prod_widths(['wa', 'wr'], W, {'inv': [False, True]}),
          cfg_st(['wa', 'wr'], {'inv': [False, True]}),
          lambda c: [c['wa']], lambda c: [c['wr']] + ([1] if c['inv'] else []),
          _abs_build,
          lambda c, v: [abs(to_signed(v[0], c['wa']))] + ([1 if to_signed(v[0], c['wa']) < 0 else 0] if c['inv'] else []),
          outnames=['r', 'inverted']))

reg(Entry('Sign', ['wa'],
          lambda W: prod_widths(['wa'], W), cfg_st(['wa']),
          lambda c: [c['wa']], lambda c: [1],
          lambda sys, i, o, c: py4hw.Sign(sys, 'dut', i[0], o[0]),
          lambda c, v: [1 if to_signed(v[0], c['wa']) < 0 else 0]))

reg(Entry('SignExtend', ['wa', 'wr'],
          lambda W: prod_widths(['wa', 'wr'], W), cfg_st(['wa', 'wr']),
          lambda c: [c['wa']], lambda c: [c['wr']],
          lambda sys, i, o, c: py4hw.SignExtend(sys, 'dut', i[0], o[0]),
          lambda c, v: [to_signed(v[0], c['wa'])]))

reg(Entry('ZeroExtend', ['wa', 'wr'],
          lambda W: prod_widths(['wa', 'wr'], W), cfg_st(['wa', 'wr']),
          lambda c: [c['wa']], lambda c: [c['wr']],
          lambda sys, i, o, c: py4hw.ZeroExtend(sys, 'dut', i[0], o[0]),
          lambda c, v: [v[0]]))

reg(Entry('Mul', ['wa', 'wb', 'wr'],
          lambda W: prod_widths(['wa', 'wb', 'wr'], W), cfg_st(['wa', 'wb', 'wr']),
          lambda c: [c['wa'], c['wb']], lambda c: [c['wr']],
          lambda sys, i, o, c: py4hw.Mul(sys, 'dut', i[0], i[1], o[0]),
          lambda c, v: [v[0] * v[1]]))

reg(Entry('SignedMul', ['wa', 'wb', 'wr'],
          lambda W: prod_widths(['wa', 'wb', 'wr'], W), cfg_st(['wa', 'wb', 'wr']),
          lambda c: [c['wa'], c['wb']], lambda c: [c['wr']],
          lambda sys, i, o, c: py4hw.SignedMul(sys, 'dut', i[0], i[1], o[0]),
          lambda c, v: [to_signed(v[0], c['wa']) * to_signed(v[1], c['wb'])]))

reg(Entry('Div', ['wa', 'wb', 'wr'],
          lambda W: prod_widths(['wa', 'wb', 'wr'], W), cfg_st(['wa', 'wb', 'wr']),
          lambda c: [c['wa'], c['wb']], lambda c: [c['wr']],
          lambda sys, i, o, c: py4hw.Div(sys, 'dut', i[0], i[1], o[0]),
          lambda c, v: None if v[1] == 0 else [v[0] // v[1]]))

reg(Entry('Mod', ['wa', 'wb', 'wr'],
          lambda W: prod_widths(['wa', 'wb', 'wr'], W), cfg_st(['wa', 'wb', 'wr']),
          lambda c: [c['wa'], c['wb']], lambda c: [c['wr']],
          lambda sys, i, o, c: py4hw.Mod(sys, 'dut', i[0], i[1], o[0]),
          lambda c, v: None if v[1] == 0 else [v[0] % v[1]]))


# ---- signed add / sub / div ----------------------------------------------------------------------
def _sadd_build(sys, i, o, c):
    ci = i[2] if c['ci'] else None
    co = o[1] if c['co'] else None
    return py4hw.SignedAdd(sys, 'dut', i[0], i[1], o[0], ci, co)


def _sadd_ref(c, v):
    sa, sb = to_signed(v[0], c['wa']), to_signed(v[1], c['wb'])
    cin = v[2] if c['ci'] else 0
    r = sa + sb + cin
    if c['co']:
        # carry out of the addition of the two's complement encodings at the result width
        m = mask(c['wr'])
        return [r, ((sa & m) + (sb & m) + cin) >> c['wr']]
    return [r]


reg(Entry('SignedAdd', ['wa', 'wb', 'wr'],
          lambda W: prod_widths(['wa', 'wb', 'wr'], W, {'ci': [False, True], 'co': [False, True]}),
          cfg_st(['wa', 'wb', 'wr'], {'ci': [False, True], 'co': [False, True]}),
          lambda c: [c['wa'], c['wb']] + ([1] if c['ci'] else []),
          lambda c: [c['wr']] + ([1] if c['co'] else []),
          _sadd_build, _sadd_ref, outnames=['r', 'co']))

reg(Entry('SignedSub', ['wa', 'wb', 'wr'],
          lambda W: prod_widths(['wa', 'wb', 'wr'], W), cfg_st(['wa', 'wb', 'wr']),
          lambda c: [c['wa'], c['wb']], lambda c: [c['wr']],
          lambda sys, i, o, c: py4hw.SignedSub(sys, 'dut', i[0], i[1], o[0]),
          lambda c, v: [to_signed(v[0], c['wa']) - to_signed(v[1], c['wb'])]))


def _sdiv_ref(c, v):
    sa, sb = to_signed(v[0], c['wa']), to_signed(v[1], c['wb'])
    if sb == 0:
        return None
    q = abs(sa) // abs(sb)
    return [-q if (sa < 0) != (sb < 0) else q]


reg(Entry('SignedDiv', ['wa', 'wb', 'wr'],
          lambda W: prod_widths(['wa', 'wb', 'wr'], W), cfg_st(['wa', 'wb', 'wr']),
          lambda c: [c['wa'], c['wb']], lambda c: [c['wr']],
          lambda sys, i, o, c: py4hw.SignedDiv(sys, 'dut', i[0], i[1], o[0]),
          _sdiv_ref))


# ---- shifts ------------------------------------------------------------------------------------------
def _n_small(keys, W):
    for c in prod_widths(keys, W):
        for n in range(0, W + 3):
            d = dict(c)
            d['n'] = n
            yield d


def _n_st(keys, hi_n=140):
    return st.fixed_dictionaries(dict({k: width_st() for k in keys},
                                      n=st.one_of(st.integers(0, 8), st.integers(0, hi_n))))


reg(Entry('ShiftLeftConstant', ['wa', 'wr', 'n'],
          lambda W: _n_small(['wa', 'wr'], W), _n_st(['wa', 'wr']),
          lambda c: [c['wa']], lambda c: [c['wr']],
          lambda sys, i, o, c: py4hw.ShiftLeftConstant(sys, 'dut', i[0], c['n'], o[0]),
          lambda c, v: [v[0] << c['n']],
          cls=lambda c: 'wr_{}_wa,n_{}_wa'.format(rel(c['wr'], c['wa']), rel(c['n'], c['wa']))))

reg(Entry('ShiftRightConstant', ['wa', 'wr', 'n'],
          lambda W: _n_small(['wa', 'wr'], W), _n_st(['wa', 'wr']),
          lambda c: [c['wa']], lambda c: [c['wr']],
          lambda sys, i, o, c: py4hw.ShiftRightConstant(sys, 'dut', i[0], c['n'], o[0]),
          lambda c, v: [v[0] >> c['n']],
          cls=lambda c: 'wr_{}_wa,n_{}_wa'.format(rel(c['wr'], c['wa']), rel(c['n'], c['wa']))))


def _shift_small(W, extra=None):
    # shift-amount width is kept <= 3 in the exhaustive stratum (2**wb stages)
    for c in prod_widths(['wa', 'wr'], W, extra):
        for wb in range(1, min(W, 3) + 1):
            d = dict(c)
            d['wb'] = wb
            yield d


def _shift_st(extra=None):
    d = {'wa': width_st(1, 64), 'wr': width_st(1, 64), 'wb': st.integers(1, 6)}
    d.update({k: st.sampled_from(v) for k, v in (extra or {}).items()})
    return st.fixed_dictionaries(d)


reg(Entry('ShiftLeft', ['wa', 'wb', 'wr'],
          lambda W: _shift_small(W), _shift_st(),
          lambda c: [c['wa'], c['wb']], lambda c: [c['wr']],
          lambda sys, i, o, c: py4hw.ShiftLeft(sys, 'dut', i[0], i[1], o[0]),
          lambda c, v: [v[0] << v[1]]))


def _shr_build(sys, i, o, c):
    ar = c['arith']
    if ar == 'wire':
        return py4hw.ShiftRight(sys, 'dut', i[0], i[1], o[0], arithmetic=i[2])
    return py4hw.ShiftRight(sys, 'dut', i[0], i[1], o[0], arithmetic=bool(ar))


def _shr_ref(c, v):
    ar = c['arith']
    if ar == 'wire':
        ar = v[2] & 1
    if ar:
        return [to_signed(v[0], c['wa']) >> v[1]]
    return [v[0] >> v[1]]


reg(Entry('ShiftRight', ['wa', 'wb', 'wr'],
          lambda W: _shift_small(W, {'arith': [False, True, 'wire']}),
          _shift_st({'arith': [False, True, 'wire']}),
          lambda c: [c['wa'], c['wb']] + ([1] if c['arith'] == 'wire' else []), lambda c: [c['wr']],
          _shr_build, _shr_ref))


# ---- rotations -------------------------------------------------------------------------------------
def rotl(a, n, w):
    n %= w
    return ((a << n) | (a >> (w - n))) & mask(w) if n else a & mask(w)


def _rotc_small(W):
    for c in prod_widths(['wa', 'wr'], W):
        for n in range(0, c['wa'] + 1):      # "all rotation amounts up to the data width"
            d = dict(c)
            d['n'] = n
            yield d


_rotc_st = st.fixed_dictionaries({'wa': width_st(), 'wr': width_st()}).flatmap(
    lambda c: st.integers(0, c['wa']).map(lambda n: dict(c, n=n)))

reg(Entry('RotateLeftConstant', ['wa', 'wr', 'n'], _rotc_small, _rotc_st,
          lambda c: [c['wa']], lambda c: [c['wr']],
          lambda sys, i, o, c: py4hw.RotateLeftConstant(sys, 'dut', i[0], c['n'], o[0]),
          lambda c, v: [rotl(v[0], c['n'], c['wa'])],
          cls=lambda c: 'wr_{}_wa'.format(rel(c['wr'], c['wa']))))

reg(Entry('RotateRightConstant', ['wa', 'wr', 'n'], _rotc_small, _rotc_st,
          lambda c: [c['wa']], lambda c: [c['wr']],
          lambda sys, i, o, c: py4hw.RotateRightConstant(sys, 'dut', i[0], c['n'], o[0]),
          lambda c, v: [rotl(v[0], c['wa'] - c['n'], c['wa'])],
          cls=lambda c: 'wr_{}_wa'.format(rel(c['wr'], c['wa']))))


def _rot_small(W):
    # amount width limited to what is needed to express amounts up to the data width:
    # every stage constant 2**i (i < wb) must itself be a legal rotation amount (<= wa)
    for c in prod_widths(['wa', 'wr'], W):
        for wb in range(1, c['wa'].bit_length() + 1):
            d = dict(c)
            d['wb'] = wb
            yield d


_rot_st = st.fixed_dictionaries({'wa': width_st(1, 64), 'wr': width_st(1, 64)}).flatmap(
    lambda c: st.integers(1, c['wa'].bit_length()).map(lambda wb: dict(c, wb=wb)))


def _rot_ref(left):
    def f(c, v):
        if v[1] > c['wa']:
            return None      # amounts above the data width are outside the stated domain
        n = v[1] if left else c['wa'] - v[1]
        return [rotl(v[0], n, c['wa'])]
    return f


reg(Entry('RotateLeft', ['wa', 'wb', 'wr'], _rot_small, _rot_st,
          lambda c: [c['wa'], c['wb']], lambda c: [c['wr']],
          lambda sys, i, o, c: py4hw.RotateLeft(sys, 'dut', i[0], i[1], o[0]),
          _rot_ref(True), cls=lambda c: 'wr_{}_wa'.format(rel(c['wr'], c['wa']))))

reg(Entry('RotateRight', ['wa', 'wb', 'wr'], _rot_small, _rot_st,
          lambda c: [c['wa'], c['wb']], lambda c: [c['wr']],
          lambda sys, i, o, c: py4hw.RotateRight(sys, 'dut', i[0], i[1], o[0]),
          _rot_ref(False), cls=lambda c: 'wr_{}_wa'.format(rel(c['wr'], c['wa']))))


# ---- leading zeros, BCD ----------------------------------------------------------------------------
def _clz_ref(c, v):
    a = v[0]
    wa = c['wa']
    n = wa - a.bit_length()
    return [n, 1 if a == 0 else 0]


reg(Entry('CountLeadingZeros', ['wa', 'wr'],
          lambda W: prod_widths(['wa', 'wr'], max(W, 5)), cfg_st(['wa', 'wr'], hi=64),
          lambda c: [c['wa']], lambda c: [c['wr'], 1],
          lambda sys, i, o, c: py4hw.CountLeadingZeros(sys, 'dut', i[0], o[0], o[1]),
          _clz_ref, outnames=['r', 'z'],
          cls=lambda c: 'wa_pow2={},wr_fits={}'.format(c['wa'] & (c['wa'] - 1) == 0, (1 << c['wr']) > c['wa'])))


def _bcd_ref(c, v):
    digits = c['wr'] // 4
    r = 0
    a = v[0]
    for i in range(digits):
        r |= ((a // 10 ** i) % 10) << (4 * i)
    return [r]


reg(Entry('BinaryToBCD', ['wa', 'wr'],
          lambda W: ({'wa': wa, 'wr': 4 * d} for wa in range(1, max(W, 5) + 3) for d in range(1, 4)),
          st.fixed_dictionaries({'wa': width_st(1, 40), 'wr': st.integers(1, 13).map(lambda d: 4 * d)}),
          lambda c: [c['wa']], lambda c: [c['wr']],
          lambda sys, i, o, c: py4hw.BinaryToBCD(sys, 'dut', i[0], o[0]),
          _bcd_ref, cls=lambda c: 'digits_enough={}'.format(10 ** (c['wr'] // 4) > mask(c['wa']))))


# ---- LogicHelper constructors for the same operations (they choose the result width themselves) -------
# build returns the list of result wires, which the bench then observes directly; the reference is
# reduced modulo the width the helper chose.
def _h(name, keys, fn, ref, inw=None, extra_small=None, extra_st=None):
    def build(sys, i, o, c):
        hlp = py4hw.LogicHelper(sys)
        return [fn(hlp, i, c)]
    reg(Entry('hlp.' + name, keys,
              lambda W: prod_widths([k for k in keys if k != 'n'], W, extra_small),
              cfg_st([k for k in keys if k != 'n'], extra_st),
              inw or (lambda c: [c[k] for k in keys if k != 'n']), lambda c: [1],
              build, ref, cls=lambda c: ('wb_{}_wa'.format(rel(c['wb'], c['wa'])) if 'wb' in c else '')))


_h('hw_abs', ['wa'], lambda h, i, c: h.hw_abs(i[0]), lambda c, v: [abs(to_signed(v[0], c['wa']))])
_h('hw_add', ['wa', 'wb'], lambda h, i, c: h.hw_add(i[0], i[1]), lambda c, v: [v[0] + v[1]])
_h('hw_sub', ['wa', 'wb'], lambda h, i, c: h.hw_sub(i[0], i[1]), lambda c, v: [v[0] - v[1]])
_h('hw_mul', ['wa', 'wb'], lambda h, i, c: h.hw_mul(i[0], i[1]), lambda c, v: [v[0] * v[1]])
_h('hw_div', ['wa', 'wb'], lambda h, i, c: h.hw_div(i[0], i[1]), lambda c, v: None if v[1] == 0 else [v[0] // v[1]])
_h('hw_mod', ['wa', 'wb'], lambda h, i, c: h.hw_mod(i[0], i[1]), lambda c, v: None if v[1] == 0 else [v[0] % v[1]])
_h('hw_signed_div', ['wa', 'wb'], lambda h, i, c: h.hw_signed_div(i[0], i[1]), _sdiv_ref)
_h('hw_signed_add', ['wa', 'wb'], lambda h, i, c: h.hw_signed_add(i[0], i[1]),
   lambda c, v: [to_signed(v[0], c['wa']) + to_signed(v[1], c['wb'])])
_h('hw_neg', ['wa'], lambda h, i, c: h.hw_neg(i[0]), lambda c, v: [-v[0]])
_h('hw_sign', ['wa'], lambda h, i, c: h.hw_sign(i[0]), lambda c, v: [1 if to_signed(v[0], c['wa']) < 0 else 0])
_h('hw_shift_left_constant', ['wa', 'n'], lambda h, i, c: h.hw_shift_left_constant(i[0], c['n']),
   lambda c, v: [v[0] << c['n']], extra_small={'n': [0, 1, 2, 5]}, extra_st={'n': list(range(0, 20))})
_h('sign_extend', ['wa', 'wr'], lambda h, i, c: h.sign_extend(i[0], c['wr']),
   lambda c, v: [to_signed(v[0], c['wa'])], inw=lambda c: [c['wa']])
_h('zero_extend', ['wa', 'wr'], lambda h, i, c: h.zero_extend(i[0], c['wr']),
   lambda c, v: [v[0]], inw=lambda c: [c['wa']])

"""Small helpers to put one library block on a test bench (a fresh HWSystem with poked input wires)."""
import py4hw
from py4hw.base import HWSystem, Wire


def mask(w):
    return (1 << w) - 1


def to_signed(v, w):
    """two's complement decoding, written here on purpose (IntegerHelper is itself under test in C12)"""
    v &= mask(w)
    return v - (1 << w) if (v >> (w - 1)) & 1 else v


class Bench:
    """A HWSystem holding input wires in_<i>, output wires out_<i> and one block built by `builder`.

    builder(sys, ins, outs) -> block (or anything); may raise => constructor rejection."""

    def __init__(self, in_widths, out_widths, builder):
        self.sys = HWSystem()
        self.ins = [self.sys.wire('in_{}'.format(i), w) for i, w in enumerate(in_widths)]
        self.outs = [self.sys.wire('out_{}'.format(i), w) for i, w in enumerate(out_widths)]
        self.block = builder(self.sys, self.ins, self.outs)
        if isinstance(self.block, list) and self.block and all(isinstance(x, Wire) for x in self.block):
            self.outs = self.block      # helper-style builders create their own result wires
        self.sim = None

    def simulator(self):
        if self.sim is None:
            self.sim = self.sys.getSimulator()
        return self.sim

    def eval(self, values):
        """combinational evaluation: poke, settle, read"""
        sim = self.simulator()
        for w, v in zip(self.ins, values):
            w.put(v)
        sim.propagateAll()
        return [w.get() for w in self.outs]

    def poke(self, values):
        for w, v in zip(self.ins, values):
            w.put(v)

    def settle(self):
        self.simulator().propagateAll()

    def clk(self, n=1):
        self.simulator().clk(n)

    def read(self):
        return [w.get() for w in self.outs]


def all_wires(obj, acc=None):
    """every Wire object reachable from the hierarchy: created wires plus port wires"""
    if acc is None:
        acc = {}
    for w in obj._wires.values():
        acc[id(w)] = w
    for p in list(obj.inPorts) + list(obj.outPorts) + list(obj.inOutPorts):
        if p.wire is not None:
            acc[id(p.wire)] = p.wire
    for c in obj.children.values():
        all_wires(c, acc)
    return acc

"""Generic runner for the property checks (see DESIGN.md section 1.1).

Usage:  ./check <Cxx> --tier quick|thorough [--replay file] [--seed N] [--jobs N]

Exit codes: 0 = property held on everything explored (KNOWN-FINDING lines allowed),
            1 = violation (prints "VIOLATION property=<id> replay=<path>"),
            2 = harness error (never a verdict about py4hw).
"""
import os
import sys

HERE = os.path.dirname(os.path.dirname(os.path.abspath(__file__)))
PY4HW_SRC = os.environ.get('PY4HW_SRC', '/repo')
if PY4HW_SRC not in sys.path:
    sys.path.insert(0, PY4HW_SRC)

import argparse
import collections
import contextlib
import hashlib
import importlib
import io
import json
import multiprocessing
import random
import time
import traceback

TIER_ENV = os.environ.get('VERIF_TIER')


class HarnessError(Exception):
    pass


# --------------------------------------------------------------------------------------
# helpers shared with property modules

def case_hash(case):
    s = json.dumps(case, sort_keys=True, separators=(',', ':'), default=str)
    return int.from_bytes(hashlib.blake2b(s.encode(), digest_size=8).digest(), 'big')


def ok(nt=False, cls=(), info=None):
    return {'nt': bool(nt), 'cls': list(cls), 'fail': None, 'discard': None, 'info': info}


def fail(sig, msg, nt=True, cls=()):
    return {'nt': bool(nt), 'cls': list(cls), 'fail': {'sig': sig, 'msg': str(msg)[:2000]},
            'discard': None, 'info': None}


def discard(reason, cls=()):
    return {'nt': False, 'cls': list(cls), 'fail': None, 'discard': reason, 'info': None}


_DEVNULL = None


@contextlib.contextmanager
def quiet():
    """Silence the library's chatter (print in BinaryToBCD, transpiler, schematic...)."""
    global _DEVNULL
    if _DEVNULL is None:
        _DEVNULL = open(os.devnull, 'w')
    old, olderr = sys.stdout, sys.stderr
    sys.stdout = _DEVNULL
    sys.stderr = _DEVNULL      # the schematic code prints swallowed tracebacks to stderr
    try:
        yield
    finally:
        sys.stdout = old
        sys.stderr = olderr


def _py4hw_frames(tb):
    frames = traceback.extract_tb(tb)
    root = os.path.join(os.path.realpath(PY4HW_SRC), 'py4hw')
    res = []
    for f in frames:
        fn = os.path.realpath(f.filename)
        res.append((fn.startswith(root), f))
    return res


def exception_signature(exc):
    """Signature for an unanticipated exception raised from inside py4hw code; None when the
    innermost frame is harness code (=> harness error)."""
    fr = _py4hw_frames(exc.__traceback__)
    if not fr:
        return None
    inner_is_lib, inner = fr[-1]
    if not inner_is_lib:
        # innermost frame not in py4hw: accept only if some py4hw frame exists *and* the innermost
        # is in the standard library / site-packages called from py4hw (e.g. math domain error)
        lib_idx = [i for i, (isl, _) in enumerate(fr) if isl]
        if not lib_idx:
            return None
        last_lib = lib_idx[-1]
        # frames after the last py4hw frame must not be harness frames
        for isl, f in fr[last_lib + 1:]:
            if os.path.realpath(f.filename).startswith(os.path.realpath(HERE)):
                return None
        inner = fr[last_lib][1]
    return 'exc:{}@{}:{}'.format(type(exc).__name__, os.path.basename(inner.filename), inner.name)


class CaseTimeout(Exception):
    pass


def _alarm(signum, frame):
    raise CaseTimeout()


CASE_TIME_LIMIT = int(os.environ.get('VERIF_CASE_SECONDS', '90'))


@contextlib.contextmanager
def time_limit():
    """a case that runs away (possible only with a broken library) is cut and counted as inconclusive"""
    import signal
    try:
        old = signal.signal(signal.SIGALRM, _alarm)
        signal.alarm(CASE_TIME_LIMIT)
    except Exception:
        old = None
    try:
        yield
    finally:
        if old is not None:
            signal.alarm(0)
            signal.signal(signal.SIGALRM, old)


def safe_run_case(mod, case):
    """run_case with library chatter silenced and unanticipated library exceptions classified."""
    random.seed(0)
    try:
        with quiet():
            _reset_library_globals()
            with time_limit():
                return mod.run_case(case)
    except CaseTimeout:
        return discard('case_time_limit_inconclusive')
    except HarnessError:
        raise
    except RecursionError:
        raise
    except Exception as e:  # noqa
        sig = exception_signature(e)
        if sig is None:
            raise
        return fail(sig, ''.join(traceback.format_exception(type(e), e, e.__traceback__))[-1800:])


def _reset_library_globals():
    # Wire.prepared is process-global state of the simulator; a case that raised in the middle of an
    # edge must not leak prepared wires into the next case.
    try:
        import py4hw.base as b
        b.Wire.prepared = []
    except Exception:
        pass


# --------------------------------------------------------------------------------------
# accumulators

class Acc:
    def __init__(self):
        self.evals = 0
        self.nt_hashes = set()
        self.nt_count_by_construction = 0
        self.classes = collections.Counter()
        self.discards = collections.Counter()
        self.fails = {}       # sig -> {'case','msg','count'}
        self.samples = []
        self.strata = {}

    def add_result(self, case, res, sample_cap=6):
        self.evals += 1
        for c in res['cls']:
            self.classes[c] += 1
        if res['discard']:
            self.discards[res['discard']] += 1
            return
        if res['nt']:
            self.nt_hashes.add(case_hash(case))
        if res['fail']:
            sig = res['fail']['sig']
            ent = self.fails.get(sig)
            if ent is None:
                self.fails[sig] = {'case': case, 'msg': res['fail']['msg'], 'count': 1}
            else:
                ent['count'] += 1
                if len(json.dumps(case, default=str)) < len(json.dumps(ent['case'], default=str)):
                    ent['case'] = case
                    ent['msg'] = res['fail']['msg']
        n = self.evals
        if res['nt'] and (len(self.samples) < 3 or (n & (n - 1)) == 0) and len(self.samples) < sample_cap:
            s = {'case': case}
            if res.get('info') is not None:
                s['observed'] = res['info']
            self.samples.append(s)

    def to_dict(self):
        return {'evals': self.evals, 'nt_hashes': self.nt_hashes,
                'nt_bc': self.nt_count_by_construction, 'classes': dict(self.classes),
                'discards': dict(self.discards), 'fails': self.fails, 'samples': self.samples}


def merge(into, d):
    into.evals += d['evals']
    into.nt_hashes |= d['nt_hashes']
    into.nt_count_by_construction += d['nt_bc']
    into.classes.update(d['classes'])
    into.discards.update(d['discards'])
    for sig, ent in d['fails'].items():
        cur = into.fails.get(sig)
        if cur is None:
            into.fails[sig] = ent
        else:
            cur['count'] += ent['count']
            if len(json.dumps(ent['case'], default=str)) < len(json.dumps(cur['case'], default=str)):
                cur['case'] = ent['case']
                cur['msg'] = ent['msg']
    for s in d['samples']:
        if len(into.samples) < 10:
            into.samples.append(s)


# --------------------------------------------------------------------------------------
# worker side

def _stratum(mod, tier, name):
    for s in mod.strata(tier):
        if s['name'] == name:
            return s
    raise HarnessError('unknown stratum ' + name)


def _limit_memory():
    # a mutated library can blow up (huge integers from an unmasked wire); turn that into MemoryError inside the
    # case (classified like any other library exception) instead of an OOM kill of the whole check
    try:
        import resource
        lim = 3 << 30
        soft, hard = resource.getrlimit(resource.RLIMIT_AS)
        if soft == resource.RLIM_INFINITY or soft > lim:
            resource.setrlimit(resource.RLIMIT_AS, (lim, hard))
    except Exception:
        pass


def _work(job):
    """job = (modname, tier, stratum name, kind, index, nshards, seed)"""
    modname, tier, sname, kind, idx, nshards, seed = job
    _limit_memory()
    try:
        mod = importlib.import_module(modname)
        st = _stratum(mod, tier, sname)
        acc = Acc()
        if kind == 'hyp':
            _run_hyp(mod, st, acc, idx, nshards, seed)
        else:
            task = st['tasks'][idx]
            random.seed(0)
            with quiet():
                r = st['run_task'](task)
            acc.evals += r['evals']
            acc.nt_count_by_construction += r.get('nt', 0)
            acc.classes.update(r.get('cls', {}))
            acc.discards.update(r.get('discards', {}))
            for f in r.get('fails', []):
                ent = acc.fails.get(f['sig'])
                if ent is None:
                    acc.fails[f['sig']] = {'case': f['case'], 'msg': f['msg'], 'count': f.get('count', 1)}
                else:
                    ent['count'] += f.get('count', 1)
            for s in r.get('samples', [])[:2]:
                acc.samples.append(s)
        d = acc.to_dict()
        d['stratum'] = sname
        return ('ok', d)
    except BaseException as e:  # noqa
        return ('err', '{}: {}\n{}'.format(sname, e, traceback.format_exc()))


def _run_hyp(mod, st, acc, idx, nshards, seed):
    import hypothesis
    from hypothesis import given, settings, HealthCheck, Phase
    total = st['examples']
    n = total // nshards + (1 if idx < total % nshards else 0)
    if n <= 0:
        return
    strat = st['strategy']()
    run = st.get('run_case') or None
    sname_h = int.from_bytes(hashlib.blake2b(st['name'].encode(), digest_size=4).digest(), 'big')
    shard_seed = (seed * 64 + idx) * 1000003 + sname_h

    @hypothesis.seed(shard_seed)
    @settings(max_examples=n, database=None, deadline=None, derandomize=False,
              report_multiple_bugs=False, phases=[Phase.generate],
              suppress_health_check=list(HealthCheck))
    @given(strat)
    def body(case):
        if run is not None:
            random.seed(0)
            with quiet():
                _reset_library_globals()
                try:
                    with time_limit():
                        res = run(case)
                except CaseTimeout:
                    res = discard('case_time_limit_inconclusive')
                except HarnessError:
                    raise
                except Exception as e:  # noqa
                    sig = exception_signature(e)
                    if sig is None:
                        raise
                    res = fail(sig, ''.join(traceback.format_exception(type(e), e, e.__traceback__))[-1800:])
        else:
            res = safe_run_case(mod, case)
        acc.add_result(case, res)

    body()


def hyp_task(strategy, run, n, key):
    """Runs n Hypothesis examples of `strategy` inside an enumerated task (used to guarantee a fixed number of
    generated cases per catalogue block).  Seeded from VERIF_SEED and `key`; returns a task-result dict."""
    import hypothesis
    from hypothesis import given, settings, HealthCheck, Phase
    acc = Acc()
    base = int(os.environ.get('VERIF_SEED', '1') or 1)
    kh = int.from_bytes(hashlib.blake2b(str(key).encode(), digest_size=4).digest(), 'big')

    @hypothesis.seed(base * 7919 + kh)
    @settings(max_examples=n, database=None, deadline=None, derandomize=False, report_multiple_bugs=False,
              phases=[Phase.generate], suppress_health_check=list(HealthCheck))
    @given(strategy)
    def body(case):
        random.seed(0)
        _reset_library_globals()
        try:
            with time_limit():
                res = run(case)
        except CaseTimeout:
            res = discard('case_time_limit_inconclusive')
        except HarnessError:
            raise
        except Exception as e:  # noqa
            sig = exception_signature(e)
            if sig is None:
                raise
            res = fail(sig, ''.join(traceback.format_exception(type(e), e, e.__traceback__))[-1800:])
        acc.add_result(case, res)

    body()
    return {'evals': acc.evals, 'nt': len(acc.nt_hashes), 'cls': dict(acc.classes), 'discards': dict(acc.discards),
            'fails': [{'sig': sg, 'msg': e['msg'], 'case': e['case'], 'count': e['count']} for sg, e in acc.fails.items()],
            'samples': acc.samples[:1]}


# --------------------------------------------------------------------------------------
# shrinking (greedy, bounded, on the JSON case)

def generic_candidates(case):
    """Yield structurally smaller variants of a JSON case: shorter lists, smaller ints."""
    def walk(obj, path):
        if isinstance(obj, dict):
            for k in sorted(obj.keys()):
                yield from walk(obj[k], path + [k])
        elif isinstance(obj, list):
            yield (path, obj)
            for i, v in enumerate(obj):
                yield from walk(v, path + [i])
        elif isinstance(obj, int) and not isinstance(obj, bool):
            yield (path, obj)

    def replace(obj, path, val, delete=False):
        if not path:
            return val
        c = json.loads(json.dumps(obj))
        cur = c
        for p in path[:-1]:
            cur = cur[p]
        if delete:
            del cur[path[-1]]
        else:
            cur[path[-1]] = val
        return c

    for path, v in list(walk(case, [])):
        if isinstance(v, list):
            if len(v) > 1:
                yield replace(case, path, v[:len(v) // 2])
                yield replace(case, path, v[len(v) // 2:])
                for i in range(len(v)):
                    yield replace(case, path, v[:i] + v[i + 1:])
        else:
            if v != 0:
                yield replace(case, path, 0)
                if abs(v) > 1:
                    yield replace(case, path, v // 2)
                    yield replace(case, path, v - 1 if v > 0 else v + 1)
                    # clear single set bits
                    if v > 0:
                        b = v.bit_length() - 1
                        yield replace(case, path, v & ~(1 << b))
                        yield replace(case, path, v & (v - 1))


def shrink(mod, case, sig, budget):
    cands = getattr(mod, 'shrink_candidates', None) or generic_candidates
    best = case
    runs = 0
    improved = True
    while improved and runs < budget:
        improved = False
        for c in cands(best):
            if runs >= budget:
                break
            runs += 1
            try:
                r = safe_run_case(mod, c)
            except Exception:
                continue
            if r['fail'] and r['fail']['sig'] == sig:
                if len(json.dumps(c, default=str)) <= len(json.dumps(best, default=str)) and c != best:
                    best = c
                    improved = True
                    break
    return best, runs


# --------------------------------------------------------------------------------------
# known findings

def load_known(prop):
    p = os.path.join(HERE, 'known_findings.json')
    if not os.path.exists(p):
        return []
    with open(p) as f:
        data = json.load(f)
    return [e for e in data.get('findings', []) if e.get('property') == prop]


def known_match(entries, sig):
    for e in entries:
        if e.get('status') != 'known':
            continue
        sigs = e.get('signatures') or [e.get('signature')]
        if sig in sigs:
            return e
        import fnmatch
        if any(p and ('*' in p) and fnmatch.fnmatchcase(sig, p) for p in sigs):
            return e
    return None


# --------------------------------------------------------------------------------------

def write_evidence(prop, tier, seed, level, coverage, assumptions, wall, violations):
    d = os.path.join(HERE, 'evidence')
    os.makedirs(d, exist_ok=True)
    ev = {'property_id': prop, 'tier': tier, 'seed': seed, 'level': level, 'coverage': coverage,
          'assumptions': assumptions, 'wall_s': round(wall, 2), 'violations': violations}
    tmp = os.path.join(d, prop + '.json.tmp')
    with open(tmp, 'w') as f:
        json.dump(ev, f, indent=1, default=str)
    os.replace(tmp, os.path.join(d, prop + '.json'))


def main(argv=None):
    ap = argparse.ArgumentParser()
    ap.add_argument('prop')
    ap.add_argument('--tier', default=TIER_ENV or 'quick', choices=['quick', 'thorough'])
    ap.add_argument('--replay')
    ap.add_argument('--seed', type=int, default=None)
    ap.add_argument('--jobs', type=int, default=int(os.environ.get('VERIF_JOBS', '16')))
    ap.add_argument('--only', help='run only the named stratum (debugging)')
    args = ap.parse_args(argv)
    prop = args.prop.upper()
    _limit_memory()
    seed = args.seed if args.seed is not None else int(os.environ.get('VERIF_SEED', '1') or 1)
    os.environ['VERIF_SEED'] = str(seed)
    modname = 'pbt.props.' + prop.lower()
    t0 = time.time()
    try:
        mod = importlib.import_module(modname)
    except Exception:
        traceback.print_exc()
        print('HARNESS-ERROR: cannot import', modname)
        return 2

    if args.replay:
        with open(args.replay) as f:
            data = json.load(f)
        case = data['case'] if isinstance(data, dict) and 'case' in data and 'sig' in data else data
        try:
            r = safe_run_case(mod, case)
        except Exception:
            traceback.print_exc()
            print('HARNESS-ERROR during replay')
            return 2
        if r['fail']:
            print('replay fails: sig={} {}'.format(r['fail']['sig'], r['fail']['msg']))
            print('VIOLATION property={} replay={}'.format(prop, args.replay))
            return 1
        print('replay passes' + (' (discarded: %s)' % r['discard'] if r['discard'] else ''))
        return 0

    try:
        return _campaign(mod, prop, args, seed, t0)
    except HarnessError as e:
        print('HARNESS-ERROR:', e)
        return 2
    except Exception:
        traceback.print_exc()
        print('HARNESS-ERROR: unexpected exception in runner')
        return 2


def _campaign(mod, prop, args, seed, t0):
    tier = args.tier
    known = load_known(prop)
    violations = []   # (sig, replay path, msg)
    known_lines = []
    notes = []

    # self test of the trusted base, if the module declares one
    st_fn = getattr(mod, 'selftest', None)
    if st_fn is not None:
        with quiet():
            problems = st_fn()
        if problems:
            raise HarnessError('self-test of the trusted base failed: ' + '; '.join(problems[:5]))

    # 1. committed regression / finding replays
    rdir = os.path.join(HERE, 'replay', prop)
    listed = {}
    for e in known:
        if e.get('replay'):
            listed[os.path.normpath(os.path.join(HERE, e['replay']))] = e
    files = []
    if os.path.isdir(rdir):
        files = sorted(os.path.join(rdir, f) for f in os.listdir(rdir) if f.endswith('.json'))
    n_replays = 0
    for path in files:
        with open(path) as f:
            data = json.load(f)
        case = data['case'] if isinstance(data, dict) and 'case' in data and 'sig' in data else data
        r = safe_run_case(mod, case)
        n_replays += 1
        e = listed.get(os.path.normpath(path))
        rel = os.path.relpath(path, HERE)
        if e is not None and e.get('status') == 'known':
            if r['fail'] and known_match([e], r['fail']['sig']):
                known_lines.append('KNOWN-FINDING: property={} {} [{}]'.format(prop, e.get('what', ''), e.get('id')))
            elif r['fail']:
                violations.append((r['fail']['sig'], rel, r['fail']['msg']))
            else:
                notes.append('NOTE: known finding {} no longer reproduces from {} (should become "fixed")'.format(e.get('id'), rel))
        else:
            if r['fail']:
                if known_match(known, r['fail']['sig']):
                    pass
                else:
                    violations.append((r['fail']['sig'], rel, r['fail']['msg']))

    # 2. campaign
    strata = mod.strata(tier)
    if args.only:
        strata = [s for s in strata if s['name'] == args.only]
    jobs = []
    nshards = max(1, args.jobs)
    for s in strata:
        if s['kind'] == 'hyp':
            k = min(nshards, max(1, s['examples']))
            for i in range(k):
                jobs.append((mod.__name__, tier, s['name'], 'hyp', i, k, seed))
        else:
            for i in range(len(s['tasks'])):
                jobs.append((mod.__name__, tier, s['name'], 'enum', i, len(s['tasks']), seed))
    total = Acc()
    per_stratum = {s['name']: {'kind': s['kind'], 'evaluations': 0, 'exhaustive': bool(s.get('exhaustive', False))}
                   for s in strata}
    errors = []
    if jobs:
        if args.jobs <= 1:
            results = map(_work, jobs)
        else:
            ctx = multiprocessing.get_context('fork')
            pool = ctx.Pool(min(args.jobs, len(jobs)))
            results = pool.imap_unordered(_work, jobs, chunksize=1)
        for status, d in results:
            if status == 'err':
                errors.append(d)
                continue
            per_stratum[d['stratum']]['evaluations'] += d['evals']
            merge(total, d)
        if args.jobs > 1:
            pool.close()
            pool.join()
    if errors:
        for e in errors[:3]:
            print(e)
        raise HarnessError('{} worker job(s) failed'.format(len(errors)))

    # 3. classify failures
    known_hits = collections.Counter()
    new = {}
    for sig, ent in total.fails.items():
        e = known_match(known, sig)
        if e is not None:
            known_hits[e['id']] += ent['count']
        else:
            new[sig] = ent
    fdir = os.path.join(HERE, 'replay', prop, '_found')
    budget = 200 if tier == 'quick' else 1500
    for sig in sorted(new):
        ent = new[sig]
        best, runs = shrink(mod, ent['case'], sig, budget)
        os.makedirs(fdir, exist_ok=True)
        fname = hashlib.blake2b(sig.encode(), digest_size=6).hexdigest() + '.json'
        path = os.path.join(fdir, fname)
        with open(path, 'w') as f:
            json.dump({'sig': sig, 'msg': ent['msg'], 'count': ent['count'], 'shrink_runs': runs, 'case': best},
                      f, indent=1, default=str)
        violations.append((sig, os.path.relpath(path, HERE), ent['msg']))

    # 4. evidence
    distinct_nt = len(total.nt_hashes) + total.nt_count_by_construction
    coverage = {
        'evaluations': total.evals + n_replays,
        'distinct_nontrivial': distinct_nt,
        'rule': mod.RULE,
        'samples': total.samples[:10],
        'exhaustive': bool(strata) and all(s.get('exhaustive', False) for s in strata),
        'strata': per_stratum,
        'classes': dict(sorted(total.classes.items())),
        'discarded': dict(total.discards),
        'known_findings_hit_in_campaign': dict(known_hits),
        'known_findings_reproduced': [l for l in known_lines],
        'regression_replays': n_replays,
        'failure_buckets': {sig: ent['count'] for sig, ent in total.fails.items()},
    }
    extra = getattr(mod, 'extra_coverage', None)
    if extra:
        coverage.update(extra(tier))
    wall = time.time() - t0
    write_evidence(prop, tier, seed, getattr(mod, 'LEVEL', 'exploration'), coverage,
                   list(getattr(mod, 'ASSUMPTIONS', [])), wall, len(violations))

    for l in known_lines:
        print(l)
    for n in notes:
        print(n)
    print('{} tier={} seed={} evaluations={} distinct_nontrivial={} discarded={} wall={:.1f}s'.format(
        prop, tier, seed, coverage['evaluations'], distinct_nt, sum(total.discards.values()), wall))
    if violations:
        for sig, rel, msg in violations:
            print('--- failure sig={}\n{}'.format(sig, msg[:1200]))
            print('VIOLATION property={} replay={}'.format(prop, rel))
        return 1
    return 0


if __name__ == '__main__':
    # scratch directory shared by the worker processes of this run (worker exit does not run atexit handlers)
    import tempfile
    import shutil
    _scratch = tempfile.mkdtemp(prefix='verif_run_')
    os.environ['VERIF_SCRATCH'] = _scratch
    try:
        _rc = main()
    finally:
        shutil.rmtree(_scratch, ignore_errors=True)
    sys.exit(_rc)

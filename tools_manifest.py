#!/venv/bin/python
"""Regenerates MANIFEST.json from the table below (kept valid at all times)."""
import json, os
HERE = os.path.dirname(os.path.abspath(__file__))
BASE = "cd /repo && /venv/bin/python -m pytest -ra -q -p no:cacheprovider --timeout=900 --continue-on-collection-errors"

CHECKS = {
 'C07': dict(tech='exhaustive small-width enumeration + Hypothesis wide-width sampling against integer-arithmetic reference functions',
             text='Every accepted configuration with all widths <= 3 (quick) / <= 5 (thorough) is enumerated over every input vector and compared with the mathematical function on Python integers; widths up to 128 are sampled with boundary-biased operands. Exploration: complete below the width bound, sampled above it.',
             note='Trusted: CPython integers, the harness two\'s complement decoder, the per-block reference functions in pbt/cat_arith.py (written from docstrings). Configurations rejected by a constructor are outside the domain.',
             ref='DESIGN.md 2/C07'),
}
CHECKS['C08'] = dict(tech='exhaustive truth-table enumeration + Hypothesis wide-width/arity sampling against docstring-derived truth-table functions',
             text='Full truth tables of every accepted configuration below the width/arity bound; widths to 128 and arities to 9 sampled. Exploration: complete below the bound, sampled above it.',
             note='Trusted: reference truth-table functions in pbt/cat_logic.py. One-hot selectors judged on one-hot/zero selects only; PriorityEncoder direction pinned by the existing unit test.',
             ref='DESIGN.md 2/C08')
CHECKS['C12'] = dict(tech='exhaustive enumeration of all 2^16 half patterns + boundary grid and Hypothesis sampling of single/double patterns against struct; Fraction oracle for FPNum arithmetic; modular-integer oracle for two\'s complement and FixedPoint',
             text='Every conversion direction (bits->float, float->bits, bits->FPNum->bits in same/wider/narrower format, pack/unpack) is checked bit-exactly against the platform encoding: complete for half precision, sign x exponent x mantissa-boundary grid plus random patterns for single/double. FPNum add/sub/mul/neg/abs/div2/compare are compared with exact rationals. Exploration.',
             note='Trusted: struct (IEEE-754 binary16/32/64), fractions.Fraction. NaN payloads excepted; narrowing only on representable values.',
             ref='DESIGN.md 2/C12')
CHECKS['C14'] = dict(tech='exhaustive enumeration of small formats x all operand pairs + Hypothesis wide formats against exact rational (Fraction) / scaled-integer reference',
             text='Every signed format with total width <= 4 (quick) / <= 6 (thorough) and every operand pair is enumerated for adder, subtractor, sign, comparator and multiplier (mixed operand/result formats); formats up to 32 bits are sampled. Exploration: complete below the bound.',
             note='Trusted: Fraction / Python integers. Comparator judged only when a-b is representable; multiplier only when the result has no more fraction bits than the exact product.',
             ref='DESIGN.md 2/C14')
CHECKS['C13'] = dict(tech='Hypothesis structured operand generation (exponent gap x mantissa boundary x cancellation) against exact rational (Fraction) oracle with ulp bounds',
             text='Adder, multiplier, comparator (plain/absolute), int->float and float->int are driven with normal operands whose exponent pair is chosen by gap (every alignment shift, gaps beyond the mantissa), mantissa boundary patterns and opposite-sign close magnitudes; outputs are decoded to exact rationals and compared with the stated bounds (ordering exact, <1 ulp product, <2 ulp of larger operand sum + sign, commutativity, truncation/p_lost/invalid). Exploration (sampled).',
             note='Trusted: Fraction arithmetic, the harness IEEE-754 decoder. Operands restricted to finite normals; results judged only when the exact result is normal.',
             ref='DESIGN.md 2/C13')
CHECKS['C09'] = dict(tech='model-based Hypothesis input histories against per-block reference state machines + exhaustive BFS of the product machine for tiny configurations',
             text='13 sequential blocks are stepped in lock-step with reference state machines from power-up over generated histories (bursts of reset/enable/push/pop, same-address read/write), outputs compared before and after every edge; for tiny configurations every transition of the reachable product machine is executed. Exploration (BFS stratum complete for the listed tiny configurations).',
             note='Trusted: the reference machines in pbt/props/c09.py. Controls are 1-bit; power-up output before the first edge belongs to C01.',
             ref='DESIGN.md 2/C09')
CHECKS['C16'] = dict(tech='model-based Hypothesis handshake schedules against peer-view reference state machines + transfer-log invariants + exhaustive BFS of the 1-bit-data product machine',
             text='Both adapters are stepped in lock-step with reference machines written from the statement in the peer view (beat = VALID and READY on the wires) over generated schedules of start/reset/done/load pulses and back-pressure, all outputs compared before and after every edge, plus invariants (VALID persistence, TDATA stability, sent only after a beat, READY = active, TLAST = TVALID, constant TKEEP); every transition of the 1-bit-data product machine is executed. Exploration; one known finding (load pulse at the ap_done edge) is excluded by construction and replayed.',
             note='Trusted: the reference machines in pbt/props/c16.py; environment assumption of the statement enforced by clearing disallowed ap_done pulses (counted).',
             ref='DESIGN.md 2/C16')
CHECKS['C20'] = dict(tech='grammar-based Hypothesis command streams with generated producer/consumer handshake timing against a reference decoder/encoder (exact ordered action log + response strings)',
             text='CMDRequest and CMDResponse are driven with generated well-formed command streams (1..10 hex digits, separators, idle gaps, consumer stalls); the ordered log of one-cycle action pulses with their values, the number of clock pulses, and the response characters collected at valid&ready edges must equal the reference exactly. Exploration (sampled).',
             note='Trusted: the reference codec in pbt/props/c20.py. Host waits for each response; consumer ready independent of valid; bounded cycle budget for liveness.',
             ref='DESIGN.md 2/C20')
CHECKS['C17'] = dict(tech='Hypothesis link configurations (ratio, bytes, gaps, consumer pacing) with a history oracle (accepted log = delivered log) and an independent software 8N1 receiver over the recorded line',
             text='Serializer, clock generation/recovery and deserializer are looped back; the log of bytes accepted at the serializer port must equal the log delivered at the deserializer port, and a software 8N1 receiver sampling the recorded tx trace mid-bit must recover the same bytes; all 256 byte values are sent at several ratios. Exploration (sampled; bounded liveness).',
             note='Trusted: the software receiver and handshake logger in pbt/props/c17.py. Realised bit period 2*floor(r/2); consumer stalls shorter than half a frame.',
             ref='DESIGN.md 2/C17')
CHECKS['C15'] = dict(tech='model-based Hypothesis recordings (Sequence sources, pokes, combinational functions, watch-list aliases, clk(n)/clear plans) against an independent value model and an independent WaveDrom decoder',
             text='The value each watched wire carries into every edge is computed independently of Waveform; getDict() must equal it sample for sample, and get_wavedrom() (both name modes) is decoded by an independent reader (dots, bit characters, hexadecimal data labels) and must reproduce the same sequences and span exactly the recorded cycles including the clock lane. Exploration (sampled).',
             note='Trusted: the value model and WaveDrom reader in pbt/props/c15.py.',
             ref='DESIGN.md 2/C15')
CHECKS['C04'] = dict(tech='Hypothesis netlist generation with several instantiation orders per netlist, independent reference evaluator, fixpoint-idempotence and evaluation-order invariants, metamorphic order independence, cyclic / register-cut variants',
             text='Generated netlists of stateless leaves (registers as cut points, hierarchy wrappers, late additions) are built in adversarial and random instantiation orders; every wire must equal the independent reference after simulator creation and after every clk, re-evaluating any leaf must change nothing, every leaf must be evaluated after its drivers, all orders must agree, cyclic variants (self-loop, 2-cycle, long cycle) must be refused and the same cycle cut by a register accepted; deep reverse-order chains stress the sorter. Exploration (sampled).',
             note='Trusted: pbt/netgen.py (IR, builder, reference evaluator). Div/Mod and Latch are not generated.',
             ref='DESIGN.md 2/C04')
CHECKS['C05'] = dict(tech='Hypothesis register netlists and library designs with permuted sequential-leaf visiting order (metamorphic), two-phase reference evaluator, prepared-list invariant, clk(n) vs n x clk(1) equivalence',
             text='For generated register netlists (chains, swaps, rings, feedback through logic, several clock domains) and library designs (UART loop, Reg2Axi->Axi2Reg, synchronous memory with register paths) the full state trace (all wires + leaf attributes) must be identical for the reference order, its reversal and random permutations of sim.clockDrivers[drv].clockables; netlists are also compared with an independent two-phase evaluator; Wire.prepared must be empty after every clk; clk(n) must equal n single calls including total_clks. Exploration (sampled).',
             note='Trusted: pbt/netgen.py reference evaluator; permutation through the public clockables list of a held simulator.',
             ref='DESIGN.md 2/C05')
CHECKS['C10'] = dict(tech='Hypothesis register netlists with gated clock drivers placed in nested wrapper groups, independent per-domain reference evaluator, tied-enable metamorphic relation',
             text='Netlists partitioned into nested wrappers, some carrying ClockDriver(base, enable) with enables from an input, from logic or from a register inside the gated domain, are simulated over enable patterns (gaps, pulses, always-on) and every wire is compared each cycle with a reference that holds gated registers when the pre-edge enable is 0 and resolves the nearest ancestor driver on the description; with all enables tied to 1 the run must equal the ungated design. Exploration (sampled).',
             note='Trusted: pbt/netgen.py (builder, reference evaluator, domain resolution).',
             ref='DESIGN.md 2/C10')
CHECKS['C11'] = dict(tech='Hypothesis construction histories interpreted against a dictionary model (stateful, replayable op lists) + single-fault variants of every catalogue block; independent undriven-port traversal as oracle for checkIntegrity',
             text='Histories of wire creation, block instantiation, child creation, rename / reparent / reparentAndRename and port addition with small name pools: every conflicting call must raise, every well-formed call must not, and after every call the first driver, child and wire registered under a name must still be in place; checkIntegrity must raise iff some port is attached to an undriven ordinary wire. Every catalogue block with all inputs driven is accepted; with one driver removed or duplicated it is rejected at the right call. Exploration (sampled).',
             note='Trusted: the dictionary model and traversal in pbt/props/c11.py. BidirWire excluded; the loser of a conflict is not judged.',
             ref='DESIGN.md 2/C11')
CHECKS['C06'] = dict(tech='Hypothesis netlists with out-of-range constants / stimulus / pokes and catalogue blocks at extreme operands; range invariant over every reachable wire at every observation point; independent reference reports whether masking mattered',
             text='Every wire reachable from the HWSystem must hold an int in [0, 2^width) after simulator creation, after Wire.put, after every clk, inside a simulatorUpdated listener and in Waveform data, for generated netlists (negative / oversized constants, Sequence stimulus and pokes, Div/Mod zero-divisor branch) and for every catalogue block at extreme operands. Exploration (sampled).',
             note='Trusted: wire enumeration in pbt/bench.py all_wires; the netgen reference only classifies non-triviality.',
             ref='DESIGN.md 2/C06')
CHECKS['C03'] = dict(tech='catalogue enumeration + Hypothesis netlists with adversarial names + shared-module-name pairs, judged by an independent Verilog-subset parser / elaborator validity predicate (declarations, resolution, closure, drivers, interface equality)',
             text='Text returned by the generator for every catalogue block (exhaustive small widths + sampled), for hierarchical netlists with reserved-word and prefix-colliding wire/port/instance names, for pairs of instances whose module names may coincide, and for a corpus of sequential/behavioural/emulation blocks must parse in a grammar derived from the emitters, declare every identifier once, use no reserved word, define every instantiated module once, connect existing ports with equal widths, give every net one driver of the right kind, select only vectors, and elaborate; objects emitted under one name must have equal headers. Exploration; two known findings are excluded/classified by signature and replayed.',
             note='Trusted: pbt/vlog.py (lexer/parser/elaborator, self-tested against hand-derived IEEE 1364 vectors) and pbt/vcheck.py.',
             ref='DESIGN.md 2/C03')
CHECKS['C01'] = dict(tech='differential simulation: py4hw cycle simulator vs an independent IEEE-1364 Verilog-subset interpreter on the emitted text, over Hypothesis-generated designs (every catalogue block + hierarchical netlists + hand-written bodies) and input sequences from power-up',
             text='For every catalogue block (a fixed number of generated configurations and input histories per block, so each inline emitter / built-in body / verilogBody is hit), for generated hierarchical netlists (shared named modules, per-instance modules, fan-out, registers) and for the hand-written bodies and emulation blocks, every top-level output is compared on every cycle from power-up between the simulator and the interpreter running the returned text; a mismatch is localised to the first differing internal net. Exploration; one known finding (aliased ports on a shared module) excluded by construction and replayed.',
             note='Trusted: pbt/vlog.py (self-tested before every run), assumption A1 (uninitialised regs are 0). Undefined Verilog results (division by zero) discard the run; ill-formed text is left to C03.',
             ref='DESIGN.md 2/C01')
CHECKS['C02'] = dict(tech='grammar-based program generation (Hypothesis) of behavioural classes rendered with minimal parentheses, differential execution of the live Python object vs the Verilog interpreter on the transpiled module (outputs + integer state every cycle), domain guard on the emitted expression tree, unsupported-construct programs, library corpus',
             text='Generated clock/propagate bodies over the supported subset are transpiled; the emitted module must parse, be well formed and produce the same outputs and state trajectory as the Python method for every generated input sequence inside the domain (the guard evaluates every emitted sub-expression sized and unbounded and cuts the sequence when they differ). Programs with one unsupported construct must be refused or behave identically; the library\'s own behavioural blocks (UART, HIL codec, Vitis FSMs, AutoReset) are a fixed corpus. Exploration; three known transpiler findings are classified by trigger and replayed.',
             note='Trusted: pbt/vlog.py incl. its domain guard; assumption A1; generated classes follow the library conventions.',
             ref='DESIGN.md 2/C02')
CHECKS['C19'] = dict(tech='Hypothesis histories of generation requests interleaved with simulation steps over 1..3 live circuits, twin-circuit purity oracle, first-answer repeatability oracle on canonicalised text',
             text='Requests (whole hierarchy / single module, for the top or a sub-block, from a generator created for the target, an ancestor or the system, fresh or reused) are interleaved with clk steps and with requests on other circuits; a twin circuit that is never generated must agree on every wire after every step and the structure (children, ports, wires, sources, sinks) must be unchanged; every answer must equal the first answer to the same (circuit, class, target) up to declaration order, including requests made from different ancestors. Exploration (sampled).',
             note='Trusted: pbt/vlog.py parser for canonicalisation; instance-unique suffixes are stable for live objects.',
             ref='DESIGN.md 2/C19')
CHECKS['C18'] = dict(tech='Hypothesis generation of structural blocks (every structural catalogue block + netlist wrappers with fan-out, feedback through registers, long forward edges) judged by a validity predicate over the placed-and-routed schematic, with a deterministic call budget for termination',
             text='The headless Schematic(obj, placeAndRoute=True) of every structural catalogue block (fixed number of generated configurations per block) and of generated netlist wrappers must return within a deterministic budget of profiled function calls, contain exactly one non-virtual symbol per child and per port, each once in the grid with pairwise disjoint boxes, and for every driven wire that is read the nets (with pass-through / feedback markers as junctions) must be connected, start at the real driver pin, end at every real reader pin and touch no pin of another wire. Exploration; one known finding (register reading its own output) is excluded by construction in 95% of the cases and replayed.',
             note='Trusted: the predicate in pbt/props/c18.py (calibrated on the unchanged tree); bounded-safety reading of "terminates".',
             ref='DESIGN.md 2/C18')
NOT_APPLICABLE = {}

def main():
    props = [json.loads(l)['id'] for l in open(os.path.join(HERE, 'properties.jsonl'))]
    checks = []
    for pid in props:
        if pid not in CHECKS:
            continue
        c = CHECKS[pid]
        checks.append({
            'property_id': pid,
            'quick_cmd': './check {} --tier quick'.format(pid),
            'thorough_cmd': './check {} --tier thorough'.format(pid),
            'evidence_file': 'evidence/{}.json'.format(pid),
            'replay_cmd_template': './check {} --replay {{path}}'.format(pid),
            'engine': 'pbt',
            'level_claimed': {'category': c.get('level', 'exploration'), 'text': c['text'], 'design_ref': c['ref']},
            'level_note': c['note'],
            'technique': c['tech'],
        })
    na = [{'property_id': p, 'reason': NOT_APPLICABLE.get(p, 'check not built yet in this revision of /verif (planned, see DESIGN.md section 2)')}
          for p in props if p not in CHECKS]
    m = {
        'version': 1,
        'setup_cmd': '/venv/bin/pip install --no-index --find-links /opt/veriftools/wheels hypothesis >/dev/null 2>&1; /venv/bin/python -c "import hypothesis, py4hw" && chmod +x ./check',
        'hooks': {'guard': 'PY4HW_VERIF', 'enable': 'no source hooks are needed: every observation point is public API (PY4HW_SRC=<dir> selects the tree under test, default /repo)',
                  'baseline_off_cmd': BASE, 'source_commits': [], 'add_only': True},
        'engines': [{'name': 'pbt', 'path': 'pbt/', 'serves_properties': [c['property_id'] for c in checks],
                     'kind_free_text': 'Hypothesis strategies / state machines + exhaustive enumeration of small finite strata, explicit reference oracles, collect-then-shrink to JSON replay files'}],
        'checks': checks,
        'notes': 'All checks: ./check <id> --tier quick|thorough; VERIF_SEED honoured; PYTHONHASHSEED=0 forced; exit 2 = harness error. Known/fixed findings in known_findings.json, regression inputs in replay/<id>/.',
        'not_applicable': na,
    }
    json.dump(m, open(os.path.join(HERE, 'MANIFEST.json'), 'w'), indent=1)

if __name__ == '__main__':
    main()

#!/venv/bin/python
"""Judges cross-property seeded changes (a sub-agent was given all 20 properties and one part of the source): at least
one registered quick check must raise an alarm; the notes name the properties the author claims to break.

usage: tools/eval_cross.py [--prefix /tmp/w5_] <Axx> [<Axx> ...]
       (expects <prefix><Axx>/seeded/x*/{patch.diff,demo.py,notes.md})

For every change:
  1. in the scratch worktree: apply the patch, run the repository test suite (must pass), run stress.py (digest),
     restore the tree, run stress.py again (digest must be identical);
  2. copy it to /verif/seeded/<Cxx>-b<i>/ ;
  3. make a scratch copy of /repo's HEAD, apply the patch there, run every registered quick check against that copy
     (PY4HW_SRC; /repo itself is never touched; evidence files are preserved);
  4. write meta.json with the list of checks that raised an alarm (exit 1) or failed (exit 2)."""
import json
import os
import shutil
import subprocess
import sys
import tempfile
import time

HERE = os.path.dirname(os.path.dirname(os.path.abspath(__file__)))
PY = '/venv/bin/python'
ALL = ['C%02d' % k for k in range(1, 21)]


def sh(cmd, cwd=None, env=None, timeout=3600):
    r = subprocess.run(cmd, shell=True, cwd=cwd, env=env, capture_output=True, text=True, timeout=timeout)
    return r.returncode, (r.stdout + r.stderr)


def suite(wt):
    env = dict(os.environ, PYTHONPATH=wt)
    tail = ''
    for attempt in range(3):
        rc, out = sh(PY + ' -m pytest -q -p no:cacheprovider --timeout=900 test 2>&1 | tail -5', cwd=wt, env=env)
        tail = out.strip().splitlines()[-1] if out.strip() else ''
        if ' passed' in tail and 'failed' not in tail:
            return True, tail
        if '1 failed' in tail:
            continue
        return False, tail
    return False, tail


def main():
    args = sys.argv[1:]
    prefix = '/tmp/w5_'
    checks = ALL
    if '--prefix' in args:
        prefix = args[args.index('--prefix') + 1]
        args = [x for x in args if x not in ('--prefix', prefix)]
    if '--checks' in args:
        c = args[args.index('--checks') + 1]
        checks = c.split(',')
        args = [x for x in args if x not in ('--checks', c)]
    for prop in args:
        wt = prefix + prop
        sd = os.path.join(wt, 'seeded')
        if not os.path.isdir(sd):
            print(prop, 'no seeded dir')
            continue
        for m in sorted(os.listdir(sd)):
            d = os.path.join(sd, m)
            patch = os.path.join(d, 'patch.diff')
            stress = os.path.join(d, 'demo.py')
            if not (os.path.exists(patch) and os.path.exists(stress)):
                continue
            meta = {'property': prop, 'name': '{}-{}'.format(prop, m), 'cross': True, 'ran': []}
            sh('git checkout -- py4hw', cwd=wt)
            rc, out = sh('git apply --check ' + patch, cwd=wt)
            if rc != 0:
                print(meta['name'], 'PATCH DOES NOT APPLY')
                continue
            sh('git apply ' + patch, cwd=wt)
            ok_suite, tail = suite(wt)
            env = dict(os.environ, PYTHONPATH=wt, PYTHONHASHSEED='0')
            rc_mut, out_mut = sh(PY + ' ' + stress + ' 2>/dev/null', cwd=d, env=env, timeout=1800)
            sh('git checkout -- py4hw', cwd=wt)
            rc_clean, out_clean = sh(PY + ' ' + stress + ' 2>/dev/null', cwd=d, env=env, timeout=1800)
            meta['ran'].append('scratch worktree {}: git apply; pytest -> {}; demo.py exit {} with the change, exit {} without'.format(wt, tail, rc_mut, rc_clean))
            meta['confirmed'] = bool(ok_suite and rc_mut != 0 and rc_clean == 0)
            same = meta['confirmed']
            notes = os.path.join(d, 'notes.md')
            meta['needs'] = open(notes).read()[:1500] if os.path.exists(notes) else ''
            dst = os.path.join(HERE, 'seeded', meta['name'])
            os.makedirs(dst, exist_ok=True)
            for f in ('patch.diff', 'demo.py', 'notes.md'):
                if os.path.exists(os.path.join(d, f)):
                    shutil.copy(os.path.join(d, f), os.path.join(dst, f))
            scr = tempfile.mkdtemp(prefix='py4hw_ben.')
            sh('git -C /repo archive HEAD py4hw | tar -x -C ' + scr)
            rc, out = sh('patch -s -p1 < ' + patch, cwd=scr)
            alarms = {}
            if rc != 0:
                meta['check'] = 'patch does not apply to HEAD'
            else:
                t0 = time.time()
                for c in checks:
                    ev = os.path.join(HERE, 'evidence', c + '.json')
                    saved = open(ev).read() if os.path.exists(ev) else None
                    try:
                        rc, out = sh('./check {} --tier quick'.format(c), cwd=HERE, env=dict(os.environ, PY4HW_SRC=scr), timeout=3600)
                    finally:
                        shutil.rmtree(os.path.join(HERE, 'replay', c, '_found'), ignore_errors=True)
                        if saved is not None:
                            open(ev, 'w').write(saved)
                    if rc != 0:
                        sigs = [l for l in out.splitlines() if l.startswith('--- failure sig=') or l.startswith('HARNESS')]
                        alarms[c] = {'exit': rc, 'signatures': sigs[:5]}
                meta['check'] = 'all of {} at --tier quick against HEAD + patch in {:.0f}s: {}'.format(
                    ','.join(checks) if checks != ALL else 'C01..C20', time.time() - t0,
                    'NO CHECK RAISED AN ALARM' if not alarms else 'detected by ' + ', '.join(sorted(alarms)))
                meta['ran'].append('scratch copy of /repo HEAD + patch.diff (PY4HW_SRC); ' + meta['check'])
            meta['alarms'] = alarms
            meta['detected'] = bool(any(v.get('exit') == 1 for v in alarms.values()))
            claimed = [l for l in meta.get('needs', '').splitlines() if l.strip().upper().startswith('VIOLATES')]
            meta['claimed'] = claimed[0].strip() if claimed else ''
            shutil.rmtree(scr, ignore_errors=True)
            json.dump(meta, open(os.path.join(dst, 'meta.json'), 'w'), indent=1)
            print(meta['name'], 'confirmed' if meta['confirmed'] else 'NOT CONFIRMED ({} / same={})'.format(tail, same),
                  'MISSED by all 20' if not alarms else 'DETECTED by ' + ','.join(sorted(alarms)), meta.get('claimed', ''))
            sys.stdout.flush()


if __name__ == '__main__':
    main()

#!/venv/bin/python
"""Sensitivity helper: copy /repo/py4hw to a scratch dir, apply one textual mutation, run a check against it
(PY4HW_SRC), report whether the check turned red, remove the scratch dir.
usage: tools/mutate.py <Cxx> <relative file> <old text> <new text> [--tier quick] [--count N]"""
import os, shutil, subprocess, sys, tempfile
def main():
    a = sys.argv[1:]
    prop, rel, old, new = a[0], a[1], a[2], a[3]
    tier = 'quick'
    if '--tier' in a: tier = a[a.index('--tier') + 1]
    d = tempfile.mkdtemp(prefix='py4hw_mut_')
    try:
        shutil.copytree('/repo/py4hw', os.path.join(d, 'py4hw'))
        p = os.path.join(d, 'py4hw', rel)
        s = open(p).read()
        n = s.count(old)
        if n == 0:
            print('MUTATION NOT APPLICABLE: text not found'); return 3
        if '--all' in a:
            s = s.replace(old, new)
        else:
            if n != 1 and '--first' not in a:
                print('MUTATION AMBIGUOUS: %d occurrences' % n); return 3
            s = s.replace(old, new, 1)
        open(p, 'w').write(s)
        env = dict(os.environ, PY4HW_SRC=d)
        here = os.path.dirname(os.path.dirname(os.path.abspath(__file__)))
        ev = os.path.join(here, 'evidence', prop + '.json')
        saved = open(ev).read() if os.path.exists(ev) else None
        r = subprocess.run([os.path.join(here, 'check'), prop, '--tier', tier], env=env, capture_output=True, text=True, cwd=here)
        out = [l for l in r.stdout.splitlines() if 'conda' not in l]
        viol = [l for l in out if l.startswith('VIOLATION')]
        print('exit', r.returncode, '| DETECTED' if (r.returncode == 1 and viol) else '| MISSED' if r.returncode == 0 else '| HARNESS-ERROR')
        for l in out[-6:]:
            print('   ', l[:300])
        shutil.rmtree(os.path.join(here, 'replay', prop, '_found'), ignore_errors=True)
        if saved is not None:
            open(ev, 'w').write(saved)      # evidence must come from the unchanged tree
        return 0
    finally:
        shutil.rmtree(d, ignore_errors=True)
sys.exit(main())

#!/bin/sh
# runs every registered check at the given tier (default quick) and prints one line per check
tier=${1:-quick}
cd "$(dirname "$0")/.."
for p in C01 C02 C03 C04 C05 C06 C07 C08 C09 C10 C11 C12 C13 C14 C15 C16 C17 C18 C19 C20; do
  start=$(date +%s)
  out=$(./check $p --tier $tier 2>&1 | grep -v conda)
  rc=$?
  end=$(date +%s)
  echo "$p rc=$(echo "$out" | grep -c '^VIOLATION') $(echo "$out" | grep "^$p tier" | cut -c1-120) [$((end-start))s]"
  echo "$out" | grep "^--- failure\|^VIOLATION\|HARNESS" | cut -c1-200
done

#!/venv/bin/python
"""Prints a markdown table of the kept seeded changes and which checks catch them (from seeded/*/meta.json)."""
import json, os, re
HERE = os.path.dirname(os.path.dirname(os.path.abspath(__file__)))
rows = []
for name in sorted(os.listdir(os.path.join(HERE, 'seeded'))):
    mp = os.path.join(HERE, 'seeded', name, 'meta.json')
    if not os.path.exists(mp):
        continue
    m = json.load(open(mp))
    if m.get('benign') or m.get('cross'):
        continue
    notes = m.get('needs', '')
    first = ''
    for l in notes.splitlines():
        l = l.strip(' #*-')
        if len(l) > 20:
            first = l
            break
    det = m.get('detected')
    status = 'quick: detected' if det else ('quick: MISSED' if det is False else 'n/a')
    sig = ''
    mm = re.search(r'sig=([^;]+)', m.get('check', ''))
    if mm:
        sig = mm.group(1).strip()
    other = '; '.join('{} {}'.format(k, 'detected' if v['detected'] else 'missed') for k, v in m.get('other_checks', {}).items())
    rows.append('| {} | {} | {} | `{}` | {} |'.format(name, first[:110].replace('|', '/'), status, sig[:70], other))
print('| change | what it does | registered check | first failing signature | other checks |')
print('|---|---|---|---|---|')
print('\n'.join(rows))


# behaviour-preserving changes: every check must stay quiet
brows = []
for name in sorted(os.listdir(os.path.join(HERE, 'seeded'))):
    mp = os.path.join(HERE, 'seeded', name, 'meta.json')
    if not os.path.exists(mp):
        continue
    m = json.load(open(mp))
    if not m.get('benign'):
        continue
    first = ''
    for l in m.get('needs', '').splitlines():
        l = l.strip(' #*-')
        if len(l) > 20:
            first = l
            break
    al = m.get('alarms') or {}
    brows.append('| {} | {} | {} | {} |'.format(name, first[:150].replace('|', '/'), 'yes' if m.get('confirmed') else 'NO',
                                           'all quiet' if not al else 'ALARM: ' + ', '.join('{} {}'.format(k, '; '.join(v.get('signatures', []))[:80]) for k, v in sorted(al.items()))))
if brows:
    print()
    print('| behaviour-preserving change | what it does | suite passes, stress digest identical | C01..C20 quick |')
    print('|---|---|---|---|')
    print('\n'.join(brows))


# cross-property changes: the author was given all 20 properties and one part of the source
xrows = []
for name in sorted(os.listdir(os.path.join(HERE, 'seeded'))):
    mp = os.path.join(HERE, 'seeded', name, 'meta.json')
    if not os.path.exists(mp):
        continue
    m = json.load(open(mp))
    if not m.get('cross'):
        continue
    first = ''
    for l in m.get('needs', '').splitlines():
        l = l.strip(' #*-')
        if len(l) > 20 and not l.upper().startswith('VIOLATES'):
            first = l
            break
    al = m.get('alarms') or {}
    det = sorted(k for k, v in al.items() if v.get('exit') == 1)
    xrows.append('| {} | {} | {} | {} |'.format(name, first[:150].replace('|', '/'), m.get('claimed', '').replace('VIOLATES:', '').strip(),
                                           ', '.join(det) if det else ('none - the change no longer breaks anything after fix 85eaff3 (see meta.json)' if m.get('note') else 'MISSED by all 20')))
if xrows:
    print()
    print('| cross-property change | what it does | properties its author names | quick checks that raise an alarm |')
    print('|---|---|---|---|')
    print('\n'.join(xrows))

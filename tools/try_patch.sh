#!/bin/sh
# usage: tools/try_patch.sh <seeded-name> <Cxx> [tier]   - runs a check against a scratch copy of /repo's HEAD with the
# seeded change applied (never touches /repo); the evidence file of the property is preserved.
set -e
HERE=$(cd "$(dirname "$0")/.." && pwd)
name=$1; prop=$2; tier=${3:-quick}
scr=$(mktemp -d /tmp/py4hw_mut.XXXXXX)
git -C /repo archive HEAD py4hw | tar -x -C "$scr"
(cd "$scr" && patch -s -p1 < "$HERE/seeded/$name/patch.diff")
cp "$HERE/evidence/$prop.json" "$scr/evidence.saved" 2>/dev/null || true
set +e
(cd "$HERE" && PY4HW_SRC="$scr" ./check "$prop" --tier "$tier" 2>&1 | grep -E "^(VIOLATION|--- failure|KNOWN|C[0-9]+ tier|HARNESS)" | cut -c1-300)
[ -f "$scr/evidence.saved" ] && cp "$scr/evidence.saved" "$HERE/evidence/$prop.json"
rm -rf "$HERE/replay/$prop/_found" "$scr"

#!/venv/bin/python
"""Confirms seeded changes produced by sub-agents and runs the registered check against each.

usage: tools/eval_seeded.py <Cxx> [<Cxx> ...]      (expects /tmp/wt_<Cxx>/seeded/m*/{patch.diff,demo.py,notes.md})

For every change:
  1. in the scratch worktree: apply the patch, run the repository test suite (must pass), run demo.py (must fail),
     restore the tree, run demo.py again (must pass);
  2. copy it to /verif/seeded/<Cxx>-m<i>/ ;
  3. apply it to /repo, run `./check <Cxx> --tier quick` (evidence file preserved), restore /repo;
  4. write meta.json."""
import json
import os
import shutil
import subprocess
import sys
import time

HERE = os.path.dirname(os.path.dirname(os.path.abspath(__file__)))
PY = '/venv/bin/python'


def sh(cmd, cwd=None, env=None, timeout=3600):
    r = subprocess.run(cmd, shell=True, cwd=cwd, env=env, capture_output=True, text=True, timeout=timeout)
    return r.returncode, (r.stdout + r.stderr)


def suite(wt):
    env = dict(os.environ, PYTHONPATH=wt)
    for attempt in range(3):
        rc, out = sh(PY + ' -m pytest -q -p no:cacheprovider --timeout=900 test 2>&1 | tail -5', cwd=wt, env=env)
        tail = out.strip().splitlines()[-1] if out.strip() else ''
        if ' passed' in tail and 'failed' not in tail:
            return True, tail
        # the repository's own Test_FPAdder_SP::test_random is flaky on the pinned tree (about 1 run in 8)
        if '1 failed' in tail:
            continue          # retried: a change that really breaks a test fails every time
        return False, tail
    return False, tail


def main():
    props = sys.argv[1:]
    scratch_mode = '--scratch' in props       # run the check against a scratch copy of HEAD + patch instead of /repo itself
    props = [x for x in props if x != '--scratch']
    prefix = '/tmp/wt_'
    if '--prefix' in props:
        prefix = props[props.index('--prefix') + 1]
        props = [x for x in props if x not in ('--prefix', prefix)]
    for prop in props:
        wt = prefix + prop
        sd = os.path.join(wt, 'seeded')
        if not os.path.isdir(sd):
            print(prop, 'no seeded dir')
            continue
        for m in sorted(os.listdir(sd)):
            d = os.path.join(sd, m)
            patch = os.path.join(d, 'patch.diff')
            demo = os.path.join(d, 'demo.py')
            if not (os.path.exists(patch) and os.path.exists(demo)):
                continue
            meta = {'property': prop, 'name': '{}-{}'.format(prop, m), 'ran': []}
            sh('git checkout -- py4hw', cwd=wt)
            rc, out = sh('git apply --check ' + patch, cwd=wt)
            if rc != 0:
                meta['confirmed'] = False
                meta['why'] = 'patch does not apply to the scratch worktree: ' + out[-200:]
                print(meta['name'], 'PATCH DOES NOT APPLY')
                continue
            sh('git apply ' + patch, cwd=wt)
            ok_suite, tail = suite(wt)
            env = dict(os.environ, PYTHONPATH=wt)
            rc_mut, out_mut = sh(PY + ' ' + demo, cwd=d, env=env, timeout=900)
            sh('git checkout -- py4hw', cwd=wt)
            rc_clean, out_clean = sh(PY + ' ' + demo, cwd=d, env=env, timeout=900)
            meta['ran'].append('scratch worktree {}: git apply; pytest -> {}; demo.py exit {} with the change, exit {} without'.format(wt, tail, rc_mut, rc_clean))
            confirmed = ok_suite and rc_mut != 0 and rc_clean == 0
            meta['confirmed'] = confirmed
            notes = os.path.join(d, 'notes.md')
            meta['needs'] = open(notes).read()[:1500] if os.path.exists(notes) else ''
            if not confirmed:
                print(meta['name'], 'NOT CONFIRMED', tail, rc_mut, rc_clean)
                continue
            dst = os.path.join(HERE, 'seeded', meta['name'])
            os.makedirs(dst, exist_ok=True)
            for f in ('patch.diff', 'demo.py', 'notes.md'):
                if os.path.exists(os.path.join(d, f)):
                    shutil.copy(os.path.join(d, f), os.path.join(dst, f))
            if scratch_mode:
                import tempfile
                scr = tempfile.mkdtemp(prefix='py4hw_mut.')
                sh('git -C /repo archive HEAD py4hw | tar -x -C ' + scr)
                rc, out = sh('patch -s -p1 < ' + patch, cwd=scr)
                if rc != 0:
                    meta['check'] = 'patch does not apply to HEAD'
                    meta['detected'] = None
                else:
                    ev = os.path.join(HERE, 'evidence', prop + '.json')
                    saved = open(ev).read() if os.path.exists(ev) else None
                    t0 = time.time()
                    try:
                        rc, out = sh('./check {} --tier quick'.format(prop), cwd=HERE, env=dict(os.environ, PY4HW_SRC=scr), timeout=3600)
                    finally:
                        shutil.rmtree(os.path.join(HERE, 'replay', prop, '_found'), ignore_errors=True)
                        if saved is not None:
                            open(ev, 'w').write(saved)
                    viol = [l for l in out.splitlines() if l.startswith('VIOLATION')]
                    sigs = [l for l in out.splitlines() if l.startswith('--- failure sig=')]
                    meta['detected'] = bool(rc == 1 and viol)
                    meta['check'] = './check {} --tier quick -> exit {} in {:.0f}s; {}'.format(prop, rc, time.time() - t0, '; '.join(sigs[:3])[:400])
                    meta['ran'].append('scratch copy of /repo HEAD + patch.diff (PY4HW_SRC); ' + meta['check'])
                shutil.rmtree(scr, ignore_errors=True)
                json.dump(meta, open(os.path.join(dst, 'meta.json'), 'w'), indent=1)
                print(meta['name'], 'confirmed', 'DETECTED' if meta['detected'] else ('MISSED' if meta['detected'] is False else 'N/A'), meta.get('check', '')[:200])
                continue
            # run the registered check against /repo with the change applied
            rc, out = sh('git -C /repo apply --check ' + patch)
            if rc != 0:
                rc, out = sh('git -C /repo apply --3way --check ' + patch)
            if rc != 0:
                meta['check'] = 'patch does not apply to the current /repo (fix commits touched the same lines)'
                meta['detected'] = None
            else:
                ev = os.path.join(HERE, 'evidence', prop + '.json')
                saved = open(ev).read() if os.path.exists(ev) else None
                sh('git -C /repo apply ' + patch)
                t0 = time.time()
                try:
                    rc, out = sh('./check {} --tier quick'.format(prop), cwd=HERE, timeout=3600)
                finally:
                    sh('git -C /repo checkout -- .')
                    shutil.rmtree(os.path.join(HERE, 'replay', prop, '_found'), ignore_errors=True)
                    if saved is not None:
                        open(ev, 'w').write(saved)
                viol = [l for l in out.splitlines() if l.startswith('VIOLATION')]
                sigs = [l for l in out.splitlines() if l.startswith('--- failure sig=')]
                meta['detected'] = bool(rc == 1 and viol)
                meta['check'] = './check {} --tier quick -> exit {} in {:.0f}s; {}'.format(prop, rc, time.time() - t0, '; '.join(sigs[:3])[:400])
                meta['ran'].append('git -C /repo apply patch.diff; ' + meta['check'] + '; git -C /repo checkout -- .')
            json.dump(meta, open(os.path.join(dst, 'meta.json'), 'w'), indent=1)
            print(meta['name'], 'confirmed', 'DETECTED' if meta['detected'] else ('MISSED' if meta['detected'] is False else 'N/A'), meta.get('check', '')[:200])


if __name__ == '__main__':
    main()

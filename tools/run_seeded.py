#!/venv/bin/python
"""Re-runs a registered check against kept seeded changes: tools/run_seeded.py <seeded name or 'all'> [<Cxx to run>] [--tier quick]
Applies /verif/seeded/<name>/patch.diff to /repo, runs the check, restores /repo, updates meta.json."""
import json, os, subprocess, sys, shutil, time
HERE = os.path.dirname(os.path.dirname(os.path.abspath(__file__)))
def sh(c, cwd=None, timeout=7200):
    r = subprocess.run(c, shell=True, cwd=cwd, capture_output=True, text=True, timeout=timeout); return r.returncode, r.stdout + r.stderr
def main():
    a = sys.argv[1:]
    tier = 'quick'
    if '--tier' in a:
        tier = a[a.index('--tier') + 1]; a = [x for x in a if x not in ('--tier', tier)]
    # 'all' = the changes made against one property (rounds m / n / r); behaviour-preserving (b) and cross-property (x)
    # changes are judged by tools/eval_benign.py and tools/eval_cross.py
    names = sorted(n for n in os.listdir(os.path.join(HERE, 'seeded')) if n.split('-')[-1][0] in 'mnr') if a[0] == 'all' else [a[0]]
    for name in names:
        d = os.path.join(HERE, 'seeded', name)
        mp = os.path.join(d, 'meta.json')
        meta = json.load(open(mp)) if os.path.exists(mp) else {'property': name.split('-')[0], 'name': name, 'ran': []}
        prop = a[1] if len(a) > 1 else meta['property']
        patch = os.path.join(d, 'patch.diff')
        rc, out = sh('git -C /repo status --porcelain')
        if out.strip():
            print('/repo is not clean'); return 2
        rc, out = sh('git -C /repo apply --check ' + patch)
        three = ''
        if rc != 0:
            rc, out = sh('git -C /repo apply --3way --check ' + patch); three = '--3way '
        if rc != 0:
            print(name, 'patch does not apply to current /repo'); meta['detected'] = None; meta['check'] = 'patch does not apply to the current /repo'
            json.dump(meta, open(mp, 'w'), indent=1); continue
        ev = os.path.join(HERE, 'evidence', prop + '.json')
        saved = open(ev).read() if os.path.exists(ev) else None
        sh('git -C /repo apply ' + three + patch)
        t0 = time.time()
        try:
            rc, out = sh('./check {} --tier {}'.format(prop, tier), cwd=HERE)
        finally:
            sh('git -C /repo reset -q --hard HEAD')
            shutil.rmtree(os.path.join(HERE, 'replay', prop, '_found'), ignore_errors=True)
            if saved is not None: open(ev, 'w').write(saved)
        viol = [l for l in out.splitlines() if l.startswith('VIOLATION')]
        sigs = [l for l in out.splitlines() if l.startswith('--- failure sig=')]
        det = bool(rc == 1 and viol)
        line = './check {} --tier {} -> exit {} in {:.0f}s; {}'.format(prop, tier, rc, time.time() - t0, '; '.join(sigs[:3])[:300])
        if prop == meta['property'] and tier == 'quick':
            meta['detected'] = det; meta['check'] = line
        else:
            meta.setdefault('other_checks', {})['{}:{}'.format(prop, tier)] = {'detected': det, 'check': line}
        meta.setdefault('ran', []).append('git -C /repo apply patch.diff; ' + line + '; git -C /repo reset --hard')
        json.dump(meta, open(mp, 'w'), indent=1)
        print(name, prop, 'DETECTED' if det else 'MISSED', line[:160])
main()

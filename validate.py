#!/opt/veriftools/pyvenv/bin/python
"""Validates MANIFEST.json and every evidence file against the schemas (run with python3-vt)."""
import json, glob, sys, jsonschema
ok = True
try:
    jsonschema.validate(json.load(open('MANIFEST.json')), json.load(open('/root/.vp/MANIFEST.schema.json')))
except Exception as e:
    ok = False; print('MANIFEST', e)
sch = json.load(open('/root/.vp/EVIDENCE.schema.json'))
for f in sorted(glob.glob('evidence/*.json')):
    try:
        jsonschema.validate(json.load(open(f)), sch)
    except Exception as e:
        ok = False; print(f, str(e)[:300])
print('valid' if ok else 'INVALID')
sys.exit(0 if ok else 1)
